// c17: correspondence cases for property C17 (Copy() yields an equivalent and fully independent runtime).
//
// Black box part (no build tag needed): generated setup histories H, Copy(), copies of copies,
// mutation programs M applied to one runtime at a time, observation programs Q; every runtime X
// is compared with its replica RX, a fresh runtime that replayed exactly the scripts that X and
// its ancestors ran.  Q(X) = Q(RX) at every point is equivalence (at the moment of Copy) and
// isolation (afterwards, both directions, copies of copies) at once, because RX only ever sees
// X's own scripts.  In addition the JavaScript-visible heap graph of a runtime and of its copy are
// dumped by a script and handed to the proven checker check_iso in Coq, together with a run of
// the model cloner on the dumped original.
//
// Hook part (build tag c17hook, needs /repo/verif_hooks_c17.go): the real Go heap (objects,
// stashes, payloads, pointer identity) of a runtime and of its copy; see dump_hook.go.
package main

import (
	"encoding/json"
	"fmt"
	"hash/fnv"
	"math/rand"
	"strings"
	"sync"

	"github.com/robertkrimen/otto"
	. "ottoh/lib"
)

func main() {
	env := FromFlags("c17")
	runC17(env)
	env.Finish()
}

// ---------------------------------------------------------------- features

type feature struct {
	name  string
	code  int64    // feature code in the Coq case (hist)
	setup []string // programs, run one after the other; $ = instance number
	muts  []string // mutation programs
	q     []string // observation expressions (must not change state)
	roots []string // object-valued globals other features may link to / from
	plain []string // extensible plain objects that can receive a link property
	both  []string // accessor invocations run after Copy() on the copy and on the original, in both orders
}

var features = []feature{
	{name: "counter", code: 1,
		setup: []string{`var mk$ = function(){ var n = 0, hidden = {v: 1}; return {inc: function(){ return ++n }, peek: function(){ return n + ':' + hidden.v }, poke: function(x){ hidden.v = x }, swap: function(){ hidden = {v: 'swapped' + n} }} }; var c$ = mk$(); c$.inc();`,
			`var c$b = mk$(); c$b.inc(); c$b.inc();`},
		muts:  []string{`c$.inc()`, `c$.poke(7)`, `c$.swap()`, `c$b.inc()`, `c$b.poke('p')`, `c$.inc(); c$.inc(); c$.poke(c$.inc())`, `c$.peek = function(){ return 'replaced' }`, `delete c$b.poke`},
		q:     []string{`c$.peek()`, `c$b.peek()`, `typeof c$b.poke`},
		both:  []string{`c$.inc()`, `c$.poke('pk')`, `c$b.inc()`},
		roots: []string{"c$", "c$b"}, plain: []string{"c$", "c$b"}},
	{name: "nested", code: 2,
		setup: []string{`function outer$(a){ var x = a; return function mid(b){ var y = b; return {get: function(){ return x + ',' + y }, setx: function(v){ x = v }, sety: function(v){ y = v }} } }`,
			`var o$ = outer$(10); var n$a = o$(1), n$b = o$(2); var n$c = outer$({deep: 1})(3);`},
		muts:  []string{`n$a.setx(5)`, `n$b.sety('yy')`, `n$b.setx({toString: function(){ return 'objx' }})`, `n$a.sety(n$b)`, `n$c.setx(n$a)`, `o$ = null`, `n$a.setx(n$a.get() + '!')`},
		q:     []string{`n$a.get()`, `n$b.get()`, `typeof n$c.get()`, `typeof o$`},
		both:  []string{`n$a.setx(5)`, `n$b.sety('yy')`},
		roots: []string{"n$a", "n$b", "n$c"}, plain: []string{"n$a", "n$b"}},
	{name: "proto", code: 3,
		setup: []string{`function P$(){ this.own = 1 }; P$.prototype.m = function(){ return 'm' + this.v }; P$.prototype.k = 1;`,
			`var p$ = new P$(); p$.v = 3; var q$ = Object.create(p$); q$.w = 4; var z$ = Object.create(null); z$.bare = 1; var q$2 = Object.create(q$, {dp: {value: 'dp', enumerable: true}});`},
		muts:  []string{`P$.prototype.k = 2`, `delete P$.prototype.m`, `q$.v = 9`, `Object.getPrototypeOf(q$).z = 1`, `p$.w = 'shadowed?'`, `P$.prototype = {m: function(){ return 'new' }}`, `q$.k = 'own'`, `delete q$.w`, `z$.bare++`, `P$.prototype.m = function(){ return 'patched' + this.w }`, `Object.defineProperty(p$, 'v', {get: function(){ return 'acc' }})`},
		q:     []string{`q$.k + ',' + q$.v + ',' + q$.w + ',' + (q$.m ? q$.m() : 'none')`, `(q$ instanceof P$) + ',' + P$.prototype.isPrototypeOf(q$) + ',' + (Object.getPrototypeOf(q$) === p$) + ',' + (Object.getPrototypeOf(q$2) === q$)`, `(function(){ var s = ''; for (var k in q$2) s += k + ';'; return s })()`, `z$.bare + ',' + (Object.getPrototypeOf(z$) === null) + ',' + ('toString' in z$)`, `(new P$().m || function(){ return 'nom' }).call({v: 'x', w: 'y'})`, `p$.constructor === P$`},
		both:  []string{`P$.prototype.k = 2`, `q$.v = 9`},
		roots: []string{"p$", "q$", "z$", "P$"}, plain: []string{"p$", "q$", "z$"}},
	{name: "accessor", code: 4,
		setup: []string{`var a$ = (function(){ var store = 1; var o = {}; Object.defineProperty(o, 'x', {get: function(){ return store }, set: function(v){ store = v * 2 }, enumerable: true, configurable: true}); Object.defineProperty(o, 'ro', {get: function(){ return 'ro' + store }}); Object.defineProperty(o, 'wo', {set: function(v){ store = -v }, configurable: true}); return o })();`,
			`var a$p = Object.create(a$); var a$g = {get y(){ return this._y || 'unset' }, set y(v){ this._y = v + '!' }};`},
		muts:  []string{`a$.x = 5`, `a$.wo = 3`, `Object.defineProperty(a$, 'x', {get: function(){ return 42 }})`, `a$p.x = 8`, `a$g.y = 'set'`, `delete a$.wo`, `Object.defineProperty(a$, 'wo', {get: function(){ return 'now readable' }})`, `Object.defineProperty(a$, 'x', {value: 'data now', writable: true})`, `a$.ro = 'ignored'`, `Object.defineProperty(a$g, 'y', {set: undefined})`},
		q:     []string{`a$.x + ',' + a$.ro + ',' + a$.wo`, `a$p.x + ',' + a$p.hasOwnProperty('x')`, `a$g.y + ',' + a$g._y`, `(function(){ var d = Object.getOwnPropertyDescriptor(a$, 'x') || {}; return typeof d.get + typeof d.set + d.enumerable + d.configurable + d.writable + d.value })()`, `(function(){ var d = Object.getOwnPropertyDescriptor(a$, 'wo') || {}; return typeof d.get + typeof d.set + d.enumerable + d.configurable })()`, `(function(){ var d = Object.getOwnPropertyDescriptor(a$g, 'y') || {}; return typeof d.get + typeof d.set })()`},
		both:  []string{`a$.x = 5`, `a$.wo = 3`, `a$g.y = 'set'`},
		roots: []string{"a$", "a$p", "a$g"}, plain: []string{"a$", "a$g"}},
	{name: "attrs", code: 5,
		setup: []string{`var t$ = {}; t$.b = 1; t$.a = 2; Object.defineProperty(t$, 'h', {value: 3, enumerable: false, writable: false, configurable: false}); t$.c = 3;`,
			`delete t$.a; t$.a = 4; t$[2] = 'two'; t$[''] = 'empty'; t$['__proto__x'] = 1; t$['é😀'] = 'uni'; Object.defineProperty(t$, 'w', {value: 1, writable: true, enumerable: false, configurable: true}); Object.defineProperty(t$, 'e', {value: 1, writable: false, enumerable: true, configurable: false});`,
			`for (var ti$ = 0; ti$ < 8; ti$++) Object.defineProperty(t$, 'm' + ti$, {value: {v: ti$}, writable: !!(ti$ & 4), enumerable: !!(ti$ & 2), configurable: !!(ti$ & 1)});`},
		muts:  []string{`t$.z = 1`, `t$.m0.v = 'x0'`, `t$.m1.v = 'x1'; t$.m2.v = 'x2'`, `t$.m3.v = 'x3'; t$.m4.v = 'x4'`, `t$.m5.v = 'x5'; t$.m6.v = 'x6'; t$.m7.v = 'x7'`, `t$.m0.added = t$.m7`, `delete t$.b; t$.b = 5`, `Object.defineProperty(t$, 'c', {enumerable: false})`, `t$.h = 9`, `t$.w = 2`, `Object.defineProperty(t$, 'w', {writable: false})`, `delete t$.e`, `delete t$.c`, `delete t$['']`, `t$.e = 7`, `Object.defineProperty(t$, 'a', {configurable: false})`, `t$[1] = 'one'`},
		q:     []string{`Object.getOwnPropertyNames(t$).join()`, `[0, 1, 2, 3, 4, 5, 6, 7].map(function(i){ var o = t$['m' + i]; return o ? o.v + (o.added ? '+' + o.added.v : '') : 'none' }).join()`, `Object.keys(t$).join()`, `(function(){ var s = ''; for (var k in t$) s += k + '=' + t$[k] + ';'; return s })()`, `(function(){ var s = ''; Object.getOwnPropertyNames(t$).forEach(function(n){ var d = Object.getOwnPropertyDescriptor(t$, n); s += n + (d.writable ? 'w' : '-') + (d.enumerable ? 'e' : '-') + (d.configurable ? 'c' : '-') + d.value + ';' }); return s })()`},
		both:  []string{`t$.m0.v = 'x0'`, `t$.m7.v = 'x7'`, `t$.z = 1`},
		roots: []string{"t$"}, plain: []string{"t$"}},
	{name: "frozen", code: 6,
		setup: []string{`var f$ = Object.freeze({a: 1, n: {b: 2}}); var s$ = Object.seal({a: 1}); var e$ = Object.preventExtensions({a: 1}); var u$ = {a: 1, inner: {i: 1}};`},
		muts:  []string{`f$.n.b = 3`, `s$.a = 2`, `e$.a = 5`, `delete e$.a`, `Object.freeze(u$)`, `Object.seal(u$)`, `Object.preventExtensions(u$)`, `u$.added = 1`, `f$.a = 2; f$.zz = 1`, `s$.zz = 1; delete s$.a`, `Object.freeze(u$.inner)`, `u$.inner.i++`, `u$.a = 'changed'`, `delete u$.a`},
		q:     []string{`Object.isFrozen(f$) + ',' + f$.a + ',' + f$.n.b + ',' + f$.zz`, `Object.isSealed(s$) + ',' + s$.a + ',' + s$.zz`, `Object.isExtensible(e$) + ',' + e$.a`, `Object.isFrozen(u$) + ',' + Object.isSealed(u$) + ',' + Object.isExtensible(u$) + ',' + JSON.stringify(u$) + Object.isFrozen(u$.inner)`},
		both:  []string{`f$.n.b = 3`, `u$.inner.i++`},
		roots: []string{"f$", "s$", "e$", "u$"}, plain: []string{"u$"}},
	{name: "bound", code: 7,
		setup: []string{`var bt$ = {v: 1}; function bf$(a, b){ return this.v + ':' + (a && a.k) + ':' + b + ':' + arguments.length }; var ba$ = {k: 'arg'};`,
			`var b$ = bf$.bind(bt$, ba$); var bb$ = b$.bind(null, 'z'); var bn$ = Array.prototype.slice.bind([1, 2, 3], 1); function BC$(a, b){ this.s = a + b }; var bc$ = BC$.bind(null, 'pre'); var b3o$ = {k: 'last'}; var b3$ = function(a, b, c, d){ return a + ':' + b + ':' + c.k + ':' + d }.bind(null, 1, 'two', b3o$);`},
		muts:  []string{`bt$.v = 2`, `ba$.k = 'changed'`, `b3o$.k = 'last changed'`, `b3o$.k += '+'`, `bt$ = {v: 'rebound var only'}`, `b$.tag = 1`, `bf$ = null`, `ba$.k = {toString: function(){ return 'K' }}`, `bt$.v = ba$`, `BC$.prototype.extra = 'x'`},
		q:     []string{`b$('q') + ',' + b$.length + ',' + b$.tag`, `b3$('d') + ',' + b3$.length`, `bb$('r', 's')`, `bn$().join()`, `new bc$('post').s + ',' + (new bc$(1) instanceof BC$) + ',' + new bc$(1).extra`, `typeof bf$`},
		both:  []string{`bt$.v = 'bv'`, `ba$.k = 'bk'`, `b3o$.k = 'b3'`},
		roots: []string{"bt$", "ba$", "b$", "bb$"}, plain: []string{"bt$", "ba$"}},
	{name: "arguments", code: 8,
		setup: []string{`function ag$(x, y){ return {args: arguments, setx: function(v){ x = v }, getx: function(){ return x }, gety: function(){ return y }, sety: function(v){ y = v }} }`,
			`var g$ = ag$(1, 2, 3); var g$1 = ag$('only'); var g$s = (function(a, b){ 'use strict'; return arguments })(1, 2);`,
			`function agf$(del){ return function(a, b, c, d){ for (var i = 0; i < del.length; i++) delete arguments[del[i]]; return {args: arguments, set: function(i, v){ if (i === 0) a = v; if (i === 1) b = v; if (i === 2) c = v; if (i === 3) d = v }, get: function(){ return [a, b, c, d].join('.') }} } }; var gsub$ = [], gfew$ = []; for (var m$ = 0; m$ < 8; m$++) { var del$ = []; for (var b$ = 0; b$ < 3; b$++) if (m$ & (1 << b$)) del$.push(b$); gsub$.push(agf$(del$)(10, 20, 30, 40, 50)); gfew$.push(agf$(del$)(10, 20)) } var gred$ = (function(a, b, c){ delete arguments[0]; arguments[0] = 'redefined'; delete arguments[1]; Object.defineProperty(arguments, '1', {value: 'dp', writable: true, enumerable: true, configurable: true}); return {args: arguments, setc: function(v){ c = v }, get: function(){ return [a, b, c].join('.') }} })(1, 2, 3);`},
		muts:  []string{`g$.setx(9)`, `gsub$.forEach(function(o, i){ o.set(i % 4, 'p' + i) })`, `gsub$.forEach(function(o, i){ o.args[(i + 1) % 4] = 'a' + i })`, `gfew$.forEach(function(o, i){ o.set(i % 2, 'f' + i); o.args[1 - i % 2] = 'g' + i })`, `gsub$.forEach(function(o, i){ delete o.args[(i + 2) % 4] })`, `gred$.setc('c2'); gred$.args[2] = 'viaargs'`, `g$.args[0] = 7`, `delete g$.args[1]`, `g$.args[1] = 8`, `g$.sety('y2')`, `delete g$.args[0]`, `g$.args[2] = 'third'`, `g$.args.length = 1`, `g$1.args[1] = 'beyond'`, `g$1.setx('x1')`, `Object.defineProperty(g$.args, '0', {value: 'dp'})`, `Object.defineProperty(g$.args, '1', {writable: false})`, `g$.args.callee = null`, `g$s[0] = 5`},
		q:     []string{`g$.args[0] + ',' + g$.args[1] + ',' + g$.args[2] + ',' + g$.args.length + ',' + g$.getx() + ',' + g$.gety()`, `gsub$.concat(gfew$, [gred$]).map(function(o){ var d = []; for (var i = 0; i < 5; i++) { var p = Object.getOwnPropertyDescriptor(o.args, String(i)); d.push(o.args[i] + (p ? (p.writable ? 'w' : '-') + String(p.value) : 'none')) } return d.join(',') + '/' + o.get() + '/' + o.args.length + '/' + Object.keys(o.args).join('') }).join('|')`, `(g$.args.callee === ag$) + ',' + Object.prototype.toString.call(g$.args) + ',' + Object.keys(g$.args).join()`, `g$1.args[0] + ',' + g$1.args[1] + ',' + g$1.getx() + ',' + g$1.gety() + ',' + g$1.args.length`, `g$s[0] + ',' + g$s.length`},
		both:  []string{`g$.setx(9)`, `g$.args[1] = 8`, `delete g$.args[0]`, `g$.setx('after unmap')`, `gsub$.forEach(function(o, i){ o.set(0, 'A'); o.set(1, 'B'); o.set(2, 'C'); o.set(3, 'D') })`, `gsub$.forEach(function(o, i){ for (var k = 0; k < 4; k++) o.args[k] = 'x' + k })`, `gfew$.forEach(function(o){ o.set(0, 'F0'); o.args[1] = 'F1' })`},
		roots: []string{"g$", "g$1"}, plain: []string{"g$", "g$1"}},
	{name: "builtins", code: 9,
		setup: []string{`Array.prototype.last$ = function(){ return this[this.length - 1] }; String.prototype.sh$ = function(){ return this + '!' }; Object.prototype.op$ = 'inherited'; Math.c$ = 42;`,
			`Object.defineProperty(Array.prototype, 'first$', {get: function(){ return this[0] }, configurable: true}); var savedMax$ = Math.max; Math.max = function(){ return 'mymax' + savedMax$.apply(null, arguments) }; Number.prototype.toFixed = function(){ return 'fixed' }; delete String.prototype.trim; Error.prototype.name = 'E$'; JSON.extra$ = {deep: [1, 2]}; Date.prototype.ext$ = function(){ return this.getTime() + 1 }; RegExp.prototype.tag$ = 'rx'; Function.prototype.fp$ = function(){ return typeof this }; Boolean.prototype.neg$ = function(){ return !this.valueOf() };`},
		muts:  []string{`Math.max = savedMax$`, `delete Array.prototype.last$`, `Object.prototype.op$ = 'changed'`, `delete Object.prototype.op$`, `Math.c$++`, `String.prototype.trim = function(){ return 'T' }`, `Array.prototype.first$ = 1`, `Object.defineProperty(Array.prototype, 'first$', {get: function(){ return 'redefined' }})`, `JSON.extra$.deep.push(3)`, `Error.prototype.name = 'Error'`, `Math.min = Math.max`, `Object.keys = function(){ return ['hijacked'] }`, `parseInt = function(){ return -1 }`, `undefined$ = Math.abs; Math.abs = null`, `Number.prototype.toFixed = Number.prototype.toPrecision`, `delete Math.c$`, `Array.isArray = null`, `Object.freeze(Math)`, `isNaN = isFinite`},
		q:     []string{`[1, 2].last$ && [1, 2].last$()`, `typeof ''.sh$ + ',' + ({}).op$ + ',' + Math.c$ + ',' + [7, 8].first$`, `Math.max(1, 2) + ',' + Math.min(1, 2) + ',' + (5).toFixed(1) + ',' + typeof ''.trim + ',' + (''.trim && ' a '.trim())`, `new Error('x').name + ',' + JSON.stringify(JSON.extra$) + ',' + new Date(5).ext$() + ',' + /a/.tag$ + ',' + Math.max.fp$() + ',' + false.neg$()`, `Object.keys({a: 1}).join() + ',' + parseInt('12') + ',' + typeof Math.abs + ',' + typeof Array.isArray + ',' + Object.isFrozen(Math) + ',' + isNaN(1)`},
		roots: []string{}, plain: []string{}},
	{name: "wrappers", code: 10,
		setup: []string{`var d$ = new Date(86400000 * 366); var r$ = /a+/g; r$.exec('xaa'); var so$ = new String('abc'); so$.extra = 1; var no$ = new Number(5); var bo$ = new Boolean(false); var ri$ = new RegExp('B', 'im');`},
		muts:  []string{`d$.setTime(5)`, `/(m$)(x)?/.test('am$b')`, `/(b)(c)/.test('abc$')`, `r$.exec('aaa baa')`, `r$.lastIndex = 0`, `so$.extra = 2`, `d$.setUTCFullYear(1999)`, `d$.tag = 'd'`, `no$.x = 1`, `r$.test('a')`, `ri$.lastIndex = 3`, `d$.setUTCHours(25)`, `so$[7] = 'idx'`, `d$ = new Date(0)`},
		q:     []string{`d$.getTime() + ',' + d$.tag`, `r$.lastIndex + ',' + r$.source + ',' + r$.global + ',' + ri$.lastIndex + ',' + ri$.ignoreCase + ri$.multiline + ri$.source`, `so$ + so$.length + so$.extra + so$[1] + so$[7]`, `(no$ + 1) + ',' + no$.x + ',' + bo$.valueOf() + ',' + typeof bo$`, `String(RegExp['\\x241']) + ',' + String(RegExp['\\x242']) + ',' + String(RegExp.input)`},
		both:  []string{`d$.setTime(5)`, `r$.exec('aaa baa')`, `so$.extra = 2`},
		roots: []string{"d$", "r$", "so$", "no$"}, plain: []string{}},
	{name: "arrays", code: 11,
		setup: []string{`var ar$ = [1, , {x: 1}, [2, 3]]; ar$.extra = 'e'; var big$ = []; big$[100] = 'far'; var ao$ = {0: 'a', 1: 'b', length: 2};`},
		muts:  []string{`ar$.push(4)`, `ar$.length = 1`, `ar$[2].x = 5`, `ar$[3].push(9)`, `ar$.reverse()`, `ar$.sort()`, `ar$.splice(1, 1, 'sp', 'sp2')`, `ar$.shift()`, `ar$.unshift('u')`, `ar$[1] = 'filled'`, `delete ar$[0]`, `big$.length = 50`, `big$[7] = 7`, `Array.prototype.push.call(ao$, 'c')`, `Object.defineProperty(ar$, 'length', {writable: false})`, `ar$.extra = ar$`},
		q:     []string{`(function(){ try { return JSON.stringify(ar$) } catch (e) { return 'cyc' } })() + ar$.length + (1 in ar$) + typeof ar$.extra`, `big$.length + ',' + big$[100] + ',' + big$[7] + ',' + Object.keys(big$).join()`, `JSON.stringify(ao$)`},
		both:  []string{`ar$.push(4)`, `ar$[2].x = 5`, `ar$[3].push(9)`},
		roots: []string{"ar$", "ao$"}, plain: []string{"ao$"}},
	{name: "with", code: 12,
		setup: []string{`var w$o = {wx: 1}; var w$, w$s, w$d; with (w$o) { w$ = function(){ return wx }; w$s = function(v){ wx = v }; w$d = function(){ return delete wx } }`,
			`var w$i = {inner: 'in'}; var gv$ = 'g0'; var w$2, w$g; with (w$i) { with (w$o) { w$2 = function(){ return inner + wx }; w$g = function(v){ if (v !== undefined) gv$ = v; return (typeof gv$) + String(gv$) } } }`},
		muts:  []string{`w$o.wx = 2`, `w$i.inner = 'changed'`, `gv$ = 'set directly'`, `w$g('set through closure')`, `w$i.gv$ = 'shadow in outer with'`, `delete w$i.inner`, `w$s(3)`, `w$d()`, `w$s('after')`, `w$o.inner = 'shadow'`, `w$o = {wx: 'other object'}`, `wx = 'global wx'`},
		q:     []string{`w$g() + ',' + gv$`, `(function(){ try { return w$() } catch (e) { return 'E:' + e.name } })()`, `(function(){ try { return w$2() } catch (e) { return 'E:' + e.name } })()`, `w$o.wx + ',' + (typeof wx)`},
		both:  []string{`w$s(3)`, `w$i.inner = 'changed'`, `w$g('through closure')`},
		roots: []string{"w$o", "w$i"}, plain: []string{"w$o"}},
	{name: "catch", code: 13,
		setup: []string{`var ct$c; try { throw 0 } catch (n) { ct$c = {inc: function(){ return ++n }, get: function(){ return n }} } var nfe$ = (function(){ var made = function self(v){ if (v !== undefined) self.slot = v; return self.slot }; return {f: made, viaOther: function(){ return made() }} })();`,
			`var ct$; try { throw {v: 1} } catch (ex) { ct$ = {get: function(){ return ex.v }, set: function(v){ ex = {v: v} }, mut: function(v){ ex.v = v }, raw: function(){ return ex }} }`,
			`var nf$ = function fact(n){ return n <= 1 ? 1 : n * fact(n - 1) }; var nf$2 = function self(){ return self }; var er$ = new TypeError('m$'); er$.extra = 1; var er$2; try { null.x } catch (e) { er$2 = e }`},
		muts:  []string{`ct$.set(2)`, `ct$c.inc()`, `ct$c.inc(); ct$c.inc()`, `nfe$.f('slot')`, `ct$.mut(3)`, `ct$.raw().v = 'raw'`, `er$.message = 'changed'`, `er$2.message = 'raised, then changed'`, `er$2.name = 'Renamed'`, `er$2.extra = 'e2'`, `nf$.memo = 1`, `er$.name = 'Custom'`},
		q:     []string{`ct$.get() + ',' + ct$c.get() + ',' + nfe$.viaOther()`, `nf$(5) + ',' + (nf$2() === nf$2) + ',' + nf$.memo`, `er$.message + ',' + er$.name + ',' + (er$ instanceof TypeError) + ',' + er$.extra + ',' + String(er$)`, `String(er$.stack) + '|' + String(er$2.stack)`, `er$2.name + ',' + (er$2 instanceof TypeError) + ',' + er$2.extra + ',' + (Object.getPrototypeOf(er$2) === TypeError.prototype)`},
		both:  []string{`ct$.set(9)`, `ct$.mut(3)`, `ct$c.inc()`, `er$.message = 'changed'`},
		roots: []string{"ct$", "er$", "er$2"}, plain: []string{"ct$"}},
	{name: "cycles", code: 14,
		setup: []string{`var cy$ = {name: 'a'}; cy$.self = cy$; var cz$ = {peer: cy$}; cy$.peer = cz$; var sh$ = {}; var s1$ = {r: sh$}, s2$ = {r: sh$}; var gl$ = this; gl$.selfg$ = gl$;`,
			`function F$(){}; F$.stat = {a: 1}; F$.prototype.back = F$; var fi$ = new F$(); var lst$ = null; for (var i$ = 0; i$ < 12; i$++) lst$ = {next: lst$, i: i$};`},
		muts:  []string{`s1$.r.v = 1`, `cy$.self = null`, `cz$.peer = cz$`, `s2$.r = {}`, `F$.stat.a++`, `lst$.next.next.i = 'mut'`, `lst$ = lst$.next`, `selfg$.viaSelf$ = 1`, `delete gl$.selfg$`, `fi$.constructor = null`, `sh$.back = s1$`},
		q:     []string{`(cy$.self === cy$) + ',' + (cy$.peer.peer === cy$) + ',' + (s1$.r === s2$.r) + ',' + s2$.r.v + ',' + (sh$.back === s1$)`, `(typeof selfg$ !== 'undefined' && selfg$ === this) + ',' + (typeof viaSelf$) + ',' + (fi$.back === F$) + ',' + F$.stat.a + ',' + (fi$.constructor === F$)`, `(function(){ var s = '', p = lst$, n = 0; while (p) { n++; if (n < 4) s += p.i + ','; p = p.next } return s + n })()`},
		both:  []string{`s1$.r.v = 1`, `F$.stat.a++`},
		roots: []string{"cy$", "cz$", "s1$", "s2$", "fi$"}, plain: []string{"cy$", "cz$", "s1$", "s2$", "sh$"}},
	{name: "bindings", code: 15,
		setup: []string{`eval('var ev$ = 1'); var nv$ = 1; function fd$(){ return 'fd' }; var fc$ = new Function('a', 'return a + nv$'); im$ = 'implicit';`,
			`Object.defineProperty(this, 'ga$', {get: function(){ return 'getter' + nv$ }, set: function(v){ nv$ = v }, configurable: true}); Object.defineProperty(this, 'ro$', {value: 'const', writable: false, configurable: false, enumerable: false});`},
		muts:  []string{`delete ev$`, `nv$ = 2`, `ga$ = 'viaSetter'`, `delete im$`, `fd$ = function(){ return 'reassigned' }`, `ro$ = 'ignored'`, `delete ga$`, `var nv$ = 'redeclared'`, `function fd$(){ return 'redeclared fn' }`, `this.ev$ = 'again'`, `eval('var late$ = 1')`},
		q:     []string{`(typeof ev$) + ',' + nv$ + ',' + fd$() + ',' + fc$('a') + ',' + (typeof im$) + ',' + (typeof ga$ !== 'undefined' ? ga$ : 'gone') + ',' + ro$ + ',' + (typeof late$)`, `(function(g){ return ['ev$', 'nv$', 'fd$', 'im$', 'ga$', 'ro$'].map(function(n){ var d = Object.getOwnPropertyDescriptor(g, n); return d ? (d.configurable ? 'c' : '-') + (d.enumerable ? 'e' : '-') + (d.writable ? 'w' : '-') : 'none' }).join() })(this)`},
		roots: []string{}, plain: []string{}},
	{name: "sharing", code: 19,
		setup: []string{`var shv$ = [[1], function(){ return 1 }, new Date(1), /r/g, new Error('e'), (function(){ return arguments })(1, 2), (function(a){ return a }).bind(null, 'b'), new String('s'), {}, new Number(1), Object.create(null), [[0]]];`,
			`var sh1$ = {}, sh2$ = {}; shv$.forEach(function(v, i){ sh1$['k' + i] = v; sh2$['k' + i] = v }); var sh3$ = [shv$[0], shv$[0], shv$[11][0], shv$[11][0]];`},
		muts:  []string{`sh1$.k0.push(2)`, `sh1$.k1.tag = 't'`, `sh1$.k2.setTime(99)`, `sh1$.k3.lastIndex = 4`, `sh1$.k4.message = 'changed'`, `sh1$.k5[0] = 'a0'`, `sh1$.k6.tag = 'b'`, `sh1$.k7.tag = 's'`, `sh1$.k8.tag = 'o'`, `sh1$.k9.tag = 'n'`, `sh1$.k10.tag = 'bare'`, `sh3$[0].push('via3')`, `sh3$[2].push('inner')`, `sh2$.k0 = [1]`, `shv$.reverse()`},
		q:     []string{`Object.keys(sh1$).map(function(k){ return sh1$[k] === sh2$[k] ? 1 : 0 }).join('') + (sh3$[0] === sh3$[1] ? 1 : 0) + (sh3$[2] === sh3$[3] ? 1 : 0) + (sh3$[0] === sh1$.k0 ? 1 : 0) + (shv$.indexOf(sh1$.k2))`, `sh2$.k0.length + ',' + sh2$.k1.tag + ',' + sh2$.k2.getTime() + ',' + sh2$.k3.lastIndex + ',' + sh2$.k4.message + ',' + sh2$.k5[0] + ',' + sh2$.k6.tag + ',' + sh2$.k7.tag + ',' + sh2$.k8.tag + ',' + sh2$.k9.tag + ',' + sh2$.k10.tag + ',' + sh3$[1].length + ',' + sh3$[3].length`},
		both:  []string{`sh1$.k0.push(2)`, `sh1$.k1.tag = 't'`, `sh1$.k2.setTime(99)`},
		roots: []string{"sh1$", "sh2$", "shv$"}, plain: []string{"sh1$", "sh2$"}},
	{name: "scopeflags", code: 18,
		setup: []string{`function dl$(){ eval('var dv = 1'); var nd = 2; return {del: function(){ return delete dv }, deln: function(){ return delete nd }, get: function(){ return (typeof dv) + (typeof nd) }, set: function(v){ dv = v; nd = v }} }; var dl$o = dl$(), dl$p = dl$();`,
			`var me$ = function me(){ me = 5; return typeof me }; var me$r = me$(); var lv$ = (function(){ var a = 1, b = {deep: {deeper: 'x'}}; function inner(){ return a + b.deep.deeper } return {inner: inner, seta: function(v){ a = v }, getb: function(){ return b }} })();`},
		muts:  []string{`dl$o.del()`, `dl$o.deln()`, `dl$o.set('s')`, `dl$p.del(); dl$p.set(1)`, `lv$.seta(7)`, `lv$.getb().deep.deeper = 'y'`, `lv$.getb().deep = {deeper: 'z'}`, `me$()`},
		q:     []string{`dl$o.get() + ',' + dl$p.get()`, `me$r + ',' + lv$.inner()`},
		both:  []string{`lv$.seta(7)`, `lv$.getb().deep.deeper = 'y'`, `dl$o.set('s')`},
		roots: []string{"dl$o", "lv$"}, plain: []string{"dl$o", "lv$"}},
	{name: "hostcfg", code: 17,
		setup: []string{`var hostMark$ = 0;`},
		muts:  []string{`hostMark$++`, `host:trace=2`, `host:trace=0`, `host:trace=14`, `host:depth=35`, `host:depth=80`, `host:random=0.75`, `host:debugger=off`, `debugger;`, `debugger; debugger;`, `hostMark$ = 'm'`, `dbgHits = 'reset'`},
		both:  []string{`host:trace=4`, `debugger;`, `host:depth=40`, `host:random=0.125`, `hostMark$++`},
		q:     []string{`hostEval('typeof hostMark$ + String(hostMark$)')`, `(typeof dbgHits) + ':' + (typeof dbgHits === 'undefined' ? '' : dbgHits)`, `Math.random() + ',' + Math.random()`, `(function d(n){ if (n > 150) return 'no limit'; try { return d(n + 1) } catch (e) { return n + e.name } })(0)`},
		roots: []string{}, plain: []string{}},
	// frozen / sealed / non-extensible holders made BEFORE Copy() whose members are accessors (getter only, setter only,
	// both) over captured mutable state plus primitives only; holders reachable only through a prototype chain or a
	// closure; frozen array and frozen function with accessors.  Everything hangs off non-enumerable properties so that
	// no other feature's enumeration invokes a getter.
	{name: "frozenacc", code: 20,
		setup: []string{`var fz$ = (function(){ var issued = 0, stored = 'init', log = '', cnt = 0; var api = {};
  function hide(n, v){ Object.defineProperty(api, n, {value: v, enumerable: false, writable: true, configurable: true}) }
  hide('ticket', Object.freeze({get next(){ issued += 1; return issued }, step: 1}));
  var box = {}; Object.defineProperty(box, 'w', {set: function(v){ stored = v }, enumerable: true}); Object.defineProperty(box, 'label', {value: 'box', enumerable: true}); hide('box', Object.freeze(box));
  hide('both', Object.freeze({get v(){ log += 'g'; return stored }, set v(x){ log += 's'; stored = x + '!' }, n: 7, s: 'str', b: true, u: undefined, z: null}));
  var sealed = {}; Object.defineProperty(sealed, 'c', {get: function(){ cnt += 1; return cnt }, set: function(x){ cnt = x }, configurable: true}); hide('sealed', Object.seal(sealed));
  var nonext = {}; Object.defineProperty(nonext, 'a', {get: function(){ cnt += 2; return cnt }}); Object.defineProperty(nonext, 'k', {value: 'const'}); hide('nonext', Object.preventExtensions(nonext));
  hide('child', Object.create(Object.freeze({get viaProto(){ issued += 10; return issued }, set viaProto(x){ issued = x }})));
  var hidden = Object.freeze({get h(){ issued += 100; return issued }}); hide('useHidden', function(){ return hidden.h });
  var farr = [1, 2]; Object.defineProperty(farr, 'g', {get: function(){ issued += 1000; return issued }}); hide('farr', Object.freeze(farr));
  var ffn = function(){ return 'ffn' }; Object.defineProperty(ffn, 'g', {get: function(){ log += 'f'; return log.length }}); hide('ffn', Object.freeze(ffn));
  var only = {}; Object.defineProperty(only, 'get', {get: function(){ log += 'o'; return log }}); Object.defineProperty(only, 'set', {set: function(x){ log += 'O' + x }}); hide('only', Object.freeze(only));
  hide('peek', function(){ return [issued, stored, log, cnt].join('/') });
  return api })();`,
			`var fz$late = (function(){ var n = 0; var o = {}; Object.defineProperty(o, 'tick', {get: function(){ return ++n }, enumerable: false}); o.plain = 1; Object.defineProperty(o, 'peek', {value: function(){ return n }, enumerable: false}); return o })(); Object.defineProperty(fz$late, 'plain', {writable: false, configurable: false});`},
		muts:  []string{`fz$.ticket.next`, `fz$.box.w = 'x'`, `fz$.both.v = 'bv'`, `fz$.both.v`, `fz$.sealed.c`, `fz$.sealed.c = 40`, `fz$.nonext.a`, `fz$.child.viaProto`, `fz$.child.viaProto = 5`, `fz$.useHidden()`, `fz$.farr.g`, `fz$.ffn.g`, `fz$.only.get`, `fz$.only.set = 1`, `fz$late.tick`, `Object.freeze(fz$late)`, `fz$.ticket.next; fz$.ticket.next; fz$.ticket.next`, `fz$.ticket.step = 9; fz$.ticket.zz = 1`},
		q:     []string{`fz$.peek() + ',' + fz$late.peek()`, `[fz$.ticket, fz$.box, fz$.both, fz$.sealed, fz$.nonext, fz$.farr, fz$.ffn, fz$.only, fz$late].map(function(o){ return (Object.isFrozen(o) ? 'F' : '-') + (Object.isSealed(o) ? 'S' : '-') + (Object.isExtensible(o) ? 'E' : '-') }).join()`, `fz$.ticket.step + ',' + fz$.ticket.zz + ',' + fz$.both.n + fz$.both.s + fz$.both.b + ',' + fz$.nonext.k + ',' + fz$.farr.length + ',' + fz$.ffn()`, `(function(){ var d = Object.getOwnPropertyDescriptor(fz$.both, 'v'), e = Object.getOwnPropertyDescriptor(fz$.box, 'w'), f = Object.getOwnPropertyDescriptor(fz$.ticket, 'next'); return typeof d.get + typeof d.set + d.configurable + typeof e.get + typeof e.set + typeof f.get + typeof f.set + f.enumerable })()`},
		both:  []string{`fz$.ticket.next`, `fz$.box.w = 'w' + fz$.peek().length`, `fz$.both.v = 'b'`, `fz$.both.v`, `fz$.sealed.c`, `fz$.sealed.c = 7`, `fz$.nonext.a`, `fz$.child.viaProto`, `fz$.child.viaProto = 3`, `fz$.useHidden()`, `fz$.farr.g`, `fz$.ffn.g`, `fz$.only.get`, `fz$.only.set = 2`, `fz$late.tick`},
		roots: []string{"fz$"}, plain: []string{"fz$"}},
	// Error objects alive at Copy(): constructed, thrown through nested calls, raised by the interpreter; message and
	// name are reassigned afterwards on either side; stack, String(e), toString and the native accessors are read
	{name: "errors", code: 22,
		setup: []string{`var ee$ = {}; ee$.plain = new Error('plain$'); ee$.nomsg = new Error(); ee$.type = new TypeError('type$'); ee$.range = new RangeError('range$'); ee$.called = Error('called$');`,
			`(function(){ function lvl2(){ throw new Error('thrown$') } function lvl1(){ lvl2() } try { lvl1() } catch (e) { ee$.thrown = e } try { null.x } catch (e) { ee$.tnull = e } try { undefinedVar$$ } catch (e) { ee$.ref = e } try { new Array(-1) } catch (e) { ee$.arr = e } try { decodeURIComponent('%') } catch (e) { ee$.uri = e } try { (void 0)() } catch (e) { ee$.call = e } })(); function My$(m){ this.message = m }; My$.prototype = new Error('proto$'); My$.prototype.name = 'My$'; ee$.custom = new My$('custom$');`,
			`(function(){ function rec(n){ if (n === 0) throw new Error('deep$'); rec(n - 1) } function mk(n){ return n ? mk(n - 1) : new RangeError('made deep$') } function nul(n){ return n ? nul(n - 1) : null.x } function ping(n){ return n ? pong(n - 1) : (void 0)() } function pong(n){ return ping(n) } [1, 2, 4, 12].forEach(function(d){ try { rec(d) } catch (e) { ee$['rec' + d] = e } ee$['mk' + d] = mk(d); try { nul(d) } catch (e) { ee$['nul' + d] = e } try { ping(d) } catch (e) { ee$['ping' + d] = e } }); try { [1].forEach(function cb(){ rec(3) }) } catch (e) { ee$.viaNative = e } })();`},
		muts:  []string{`ee$.plain.message = 'plain changed'`, `ee$.rec4.stack`, `ee$.rec12.stack; ee$.mk4.stack`, `ee$.rec2.message = 'rec changed'`, `ee$.nul4.stack; ee$.ping4.stack; ee$.viaNative.stack`, `ee$.thrown.message = 'thrown changed'`, `ee$.tnull.message = 'tnull changed'`, `ee$.ref.message = 'ref changed'; ee$.ref.name = 'RefName'`, `ee$.type.name = 'Renamed'`, `ee$.nomsg.message = 'now has one'`, `delete ee$.range.message`, `ee$.arr.message = 42`, `ee$.uri.message = {toString: function(){ return 'objmsg' }}`, `ee$.call.message += ' +ctx'`, `My$.prototype.message = 'proto changed'`, `ee$.custom.message = 'custom changed'`, `Object.defineProperty(ee$.called, 'message', {get: function(){ return 'accessor message' }})`, `Error.prototype.name = 'BaseRenamed'`, `ee$.plain.stack`, `ee$.late = new Error('late$')`, `ee$.plain = ee$.thrown`},
		q:     []string{`Object.keys(ee$).map(function(k){ var e = ee$[k]; return k + ':' + e.name + ':' + e.message + ':' + String(e) + ':' + Error.prototype.toString.call(e) }).join('|')`, `Object.keys(ee$).map(function(k){ return String(ee$[k].stack) }).join('|')`, `Object.keys(ee$).map(function(k){ var e = ee$[k], d = Object.getOwnPropertyDescriptor(e, 'stack'); return (e instanceof Error) + (d ? typeof d.get + typeof d.set : 'nodesc') + (e.constructor ? Object.getPrototypeOf(e) === e.constructor.prototype : 'noctor') }).join()`},
		both:  []string{`ee$.plain.message = 'plain changed'`, `ee$.tnull.message = 'tnull changed'`, `ee$.thrown.name = 'Renamed'`},
		roots: []string{"ee$"}, plain: []string{"ee$"}},
	// closures whose bodies evaluate literals that create objects: each call must give an object of the calling runtime
	{name: "literals", code: 21,
		setup: []string{`var lit$ = {re: function(){ return /ab+c/ }, rei: function(){ return /x/im }, reg: function(){ return /g/g }, arr: function(){ return [1, [2], {three: 3}] }, obj: function(){ return {a: 1, inner: {b: 2}, get g(){ return 1 }} }, fn: function(){ return function inner(){ return 'inner' } }, str: function(){ return 'lit' }, nested: function(){ return [/n/, [/m/]] }};`,
			`var lit$loop = function(){ var seen = []; for (var i = 0; i < 3; i++) seen.push(/loop/); return seen }; lit$.re(); lit$.arr(); var lit$first = lit$.rei();`},
		muts:  []string{`lit$.re().note = 'n'`, `lit$.re().lastIndex = 7`, `RegExp.prototype.lt$ = 'mine'`, `Array.prototype.lt$ = 'arr'`, `Object.prototype.lt$ = 'obj'`, `Function.prototype.lt$ = 'fn'`, `lit$.re().test('zabbc')`, `lit$.rei().test('X')`, `lit$.arr().push(4)`, `lit$.arr()[1].push('x')`, `lit$.obj().inner.b = 'changed'`, `lit$.fn().tag = 1`, `lit$.nested()[1][0].note = 'deep'`, `lit$loop()[0].note = 'loop'`, `lit$first.note = 'first'`, `delete RegExp.prototype.lt$`, `lit$.reg().lastIndex = 3`},
		q:     []string{`['re', 'rei', 'reg'].map(function(k){ var x = lit$[k](); return (x instanceof RegExp) + ',' + (Object.getPrototypeOf(x) === RegExp.prototype) + ',' + x.note + ',' + x.lastIndex + ',' + x.lt$ + ',' + (lit$[k]() === lit$[k]()) + ',' + x.source }).join('|')`, `(function(){ var a = lit$.arr(), o = lit$.obj(), f = lit$.fn(), n = lit$.nested(), l = lit$loop(); return [a instanceof Array, a.length, a[1].length, a.lt$, a[2] instanceof Object, o instanceof Object, o.inner.b, o.lt$, f instanceof Function, f.tag, f.lt$, f(), n[0] instanceof RegExp, n[1][0] instanceof RegExp, n[1][0].note, l[0] === l[1], l[0].note, l[2] instanceof RegExp, lit$first.note, lit$first instanceof RegExp, lit$.str()].join() })()`, `String(RegExp['\x241']) + ',' + String(RegExp.input)`},
		both:  []string{`lit$.re().note = 'n'`, `lit$.re().lastIndex = 7`, `lit$.rei().test('X')`, `lit$.arr().push(4)`},
		roots: []string{"lit$"}, plain: []string{"lit$"}},
	// the global bindings of the built-ins themselves: aliased, given new members, members replaced, deleted, rebound
	// before Copy().  The observation closure captures the reflection functions it needs first.  "globals" touches a
	// subset that the other observations do not depend on; "globalsall" does it to EVERY own property of the global
	// object (pinned only: it cripples everything else in its runtime).
	{name: "globals", code: 23,
		setup: []string{`var gq$ = (function(g){ var gOPN = Object.getOwnPropertyNames, gOPD = Object.getOwnPropertyDescriptor, keys = Object.keys, saved = {}, names = ['console', 'escape', 'unescape', 'isFinite', 'URIError', 'EvalError', 'encodeURI', 'decodeURI', 'encodeURIComponent', 'Infinity', 'NaN', 'undefined', 'parseFloat'];
  names.forEach(function(n, i){ var v = g[n]; saved[n] = v; var isO = (typeof v === 'object' && v !== null) || typeof v === 'function';
    if (i % 4 === 0 && isO) { v.tag$ = 'tag' + i; var k = gOPN(v)[0]; if (k !== undefined) try { v[k] = 'replaced member' } catch (e) {} }
    if (i % 4 === 1) delete g[n];
    if (i % 4 === 2) g[n] = 'rebound' + i;
    if (i % 4 === 3 && isO) v.extra$ = {deep: i} });
  return function(){ return gOPN(g).join() + '#' + keys(g).join() + '#' + names.map(function(n){ var d = gOPD(g, n), v = d && d.value, s = saved[n]; return n + ':' + typeof v + ':' + (v === s) + ':' + (d ? (d.writable ? 'w' : '-') + (d.enumerable ? 'e' : '-') + (d.configurable ? 'c' : '-') : 'gone') + ':' + (s && s.tag$) + ':' + (s && s.extra$ && s.extra$.deep) + ':' + (s && typeof s === 'object' ? gOPN(s).join('.') : '') }).join('|') } })(this);`},
		muts:  []string{`console = 'again'`, `delete console`, `var console = {log: function(){ return 'mine' }}`, `escape = null`, `this.URIError = 1`, `NaN = 5; undefined = 6`, `delete isFinite; isFinite = parseInt`, `newglobal$ = 1`},
		q:     []string{`gq$()`, `typeof console + ',' + typeof escape + ',' + typeof URIError + ',' + typeof isFinite + ',' + typeof newglobal$`},
		both:  []string{`console = 'c' + typeof console`, `delete escape`, `lastglobal$ = 1`},
		roots: []string{}, plain: []string{}},
	{name: "getterstate", code: 16,
		setup: []string{`var gs$ = (function(){ var log = []; var target = {v: 0}; var api = {}; Object.defineProperty(api, 'hit', {get: function(){ log.push(log.length); return log.length }, enumerable: false}); api.log = function(){ return log.join('') }; api.target = target; api.bump = function(){ target.v++; return api }; return api })();`},
		muts:  []string{`gs$.hit`, `gs$.bump().bump()`, `gs$.target.v = 'direct'`, `gs$.hit; gs$.hit`, `gs$.target = {v: 'replaced'}`},
		q:     []string{`gs$.log() + ',' + gs$.target.v`},
		both:  []string{`gs$.hit`, `gs$.bump()`},
		roots: []string{"gs$"}, plain: []string{"gs$"}},
}

// Witnesses of findings.  The first four were repaired in /repo (4582d68: nil arguments object of a function
// stash; 1f3ee72: eval intrinsic looked up through the global property): they are ordinary features now, mixed
// freely into histories (init below), and still run first on every run as regression cases that expect an
// equivalent, independent copy.  The last one (f.caller through the getter shared with copies) was repaired by
// b9d7aab and is treated the same way; its observation 201 stays a separate regression observation.
var (
	defArgParam = feature{name: "argparam", code: 101,
		setup: []string{`function pa$(arguments){ var held = {v: arguments}; return {f: function(){ return 1 }, get: function(){ return arguments + ':' + held.v }, set: function(v){ arguments = v; held.v = v }} }; var pa$o = pa$(1), pa$f = pa$o.f;`},
		muts:  []string{`pa$o.set('changed')`, `pa$f.tag = 1`, `pa$o.set(pa$o)`, `pa$o = pa$(2)`},
		q:     []string{`pa$f() + ',' + pa$f.tag`, `typeof pa$o.get()`, `pa$(5).get()`},
		roots: []string{"pa$o"}, plain: []string{"pa$o"}}
	defEvalGone1 = feature{name: "evalgone", code: 102, setup: []string{`var e$ = eval; eval = 1;`},
		muts: []string{`eval = e$`, `eval = 2`, `eval = e$; eval('var viaeval$ = 1')`, `delete eval`},
		q:    []string{`typeof eval`, `typeof e$ + e$('1+1')`, `(function(){ var l = 'loc'; try { return eval === e$ ? eval('l') : 'n/a' } catch (e) { return 'E:' + e.name } })()`, `typeof viaeval$`}}
	defEvalGone2 = feature{name: "evalgone", code: 102, setup: []string{`var e$ = eval; delete eval;`},
		muts: []string{`eval = e$`, `this.eval = e$`, `eval = null`, `var eval = e$; eval('var viaeval$ = 1')`},
		q:    []string{`typeof eval`, `typeof e$ + e$('1+1')`, `(function(){ var l = 'loc'; try { return eval === e$ ? eval('l') : 'n/a' } catch (e) { return 'E:' + e.name } })()`, `typeof viaeval$`}}
	defEvalSwap = feature{name: "evalswap", code: 103, setup: []string{`var e$ = eval; eval = parseInt; var evx$ = 'global';`},
		muts: []string{`eval = e$`, `eval = parseInt`, `evx$ = 'global2'`, `eval = Math.abs`},
		q:    []string{`typeof eval + eval('12px')`, `(function(){ var saved = eval; try { eval = e$; return (function(){ var evx$ = 'local'; return eval('evx$') })() } catch (e) { return 'E:' + e.name } finally { eval = saved } })()`, `e$('evx$')`}}
	defCaller = feature{name: "caller", code: 104,
		setup: []string{`function cf$(){ return cf$.caller === cg$ }; function cg$(){ return cf$() }`,
			`function who$(){ return who$.caller && who$.caller.name }; function ca$(){ return who$() }; var cb$ = ca$.bind(null); var co$ = {m: function viaMethod(){ return who$() }}; function deep$(n){ return n ? deep$(n - 1) : who$() }`},
		muts: []string{`ca$ = function replaced(){ return who$() }`, `co$.m = ca$`, `cg$ = function(){ return cf$() }`, `who$.tag = 1`, `cb$ = cb$.bind(null)`},
		q:    []string{`String(cg$())`, `[ca$(), cb$(), String(who$()), co$.m(), deep$(3), (function anon(){ return who$() })(), [1].map(function cbk(){ return who$() })[0]].join()`, `(function(){ var d = Object.getOwnPropertyDescriptor(who$, 'caller'); return typeof d.get + typeof d.set + d.enumerable + d.configurable })()`}}
)

var defGlobalsAll = feature{name: "globalsall", code: 24,
	setup: []string{`var ga$ = (function(g){ var gOPN = Object.getOwnPropertyNames, gOPD = Object.getOwnPropertyDescriptor, saved = {}, names = gOPN(g);
  for (var i = 0; i < names.length; i++) { var n = names[i]; if (n === '__dump' || n === '__callall') continue; var v = g[n]; saved[n] = v; var isO = (typeof v === 'object' && v !== null) || typeof v === 'function';
    if (i % 4 === 0 && isO) try { v.tag$ = 'tag' + i } catch (e) {}
    if (i % 4 === 1) try { delete g[n] } catch (e) {}
    if (i % 4 === 2) try { g[n] = 'rebound' + i } catch (e) {}
    if (i % 4 === 3 && isO) try { v.extra$ = {deep: i} } catch (e) {} }
  return function(){ var now = gOPN(g), s = ''; for (var k = 0; k < now.length; k++) s += now[k] + ','; s += '#';
    for (var i = 0; i < names.length; i++) { var n = names[i]; if (!(n in saved)) continue; var d = gOPD(g, n), v = d && d.value, sv = saved[n]; s += n + ':' + typeof v + ':' + (v === sv) + ':' + (d ? (d.writable ? 'w' : '-') + (d.enumerable ? 'e' : '-') + (d.configurable ? 'c' : '-') : 'gone') + ':' + (sv && sv.tag$) + ':' + (sv && sv.extra$ && sv.extra$.deep) + '|' }
    return s } })(this);`},
	muts:  []string{`ga$late = 1`},
	q:     []string{`ga$()`},
	roots: []string{}, plain: []string{}}

func featureByName(n string) feature {
	for _, f := range features {
		if f.name == n {
			return f
		}
	}
	panic("no feature " + n)
}

func init() {
	features = append(features, defArgParam, defEvalGone1, defEvalGone2, defEvalSwap, defCaller)
}

// always-on observation: every intrinsic the runtime record points to (rt.global.*Prototype, constructors,
// the global object, eval) is the one the copy's scripts see: fresh values of every built-in kind, errors
// raised by the interpreter itself, results of built-in factories
const qIntrinsics = `(function(g){ var gp = Object.getPrototypeOf, r = [];
  function t(v, C){ r.push(gp(v) === C.prototype ? 1 : 0) }
  function thrown(f){ try { f() } catch (e) { return e } return {} }
  t([], Array); t({}, Object); t(function(){}, Function); t(new String('s'), String); t(Object('s'), String); t(Object(1), Number); t(Object(true), Boolean);
  t(new Date(0), Date); t(/x/, RegExp); t(new RegExp('y'), RegExp); t(new Error('e'), Error); t(new EvalError('e'), EvalError); t(new TypeError('e'), TypeError);
  t(new RangeError('e'), RangeError); t(new ReferenceError('e'), ReferenceError); t(new SyntaxError('e'), SyntaxError); t(new URIError('e'), URIError);
  t(thrown(function(){ null.x }), TypeError); t(thrown(function(){ return undefinedVariable$$ }), ReferenceError); t(thrown(function(){ new Array(-1) }), RangeError);
  t(thrown(function(){ eval('(') }), SyntaxError); t(thrown(function(){ decodeURIComponent('%') }), URIError); t(thrown(function(){ throw Error('called') }), Error);
  t((function(){ return arguments })(), Object); t(JSON.parse('[1]'), Array); t(JSON.parse('{"a":1}'), Object); t(JSON.parse('{"a":[1]}').a, Array);
  t((function(){}).bind(null), Function); t(new Function('return 1'), Function); t('a,b'.split(','), Array); t(/a/.exec('a'), Array); t([1].map(function(x){ return x }), Array);
  t(Object.keys({}), Array); t(Object.getOwnPropertyDescriptor({a: 1}, 'a'), Object); t(Object.create(Object.prototype), Object); t([].concat([1]), Array); t([1, 2].slice(0), Array);
  t(new (function(){})(), Object); t((function(){}).prototype, Object); t(Array(3), Array); t(String.prototype.match.call('aa', /a/g), Array); t(Object.getOwnPropertyNames({}), Array);
  r.push(gp(g) === Object.prototype ? 1 : 0); r.push(gp(Math) === Object.prototype ? 1 : 0); r.push(gp(JSON) === Object.prototype ? 1 : 0); r.push(g.eval === eval ? 1 : 0);
  r.push((function(){ return this })() === g ? 1 : 0); r.push((0, eval)('this') === g ? 1 : 0); r.push(eval('this') === g ? 1 : 0);
  r.push([Object, Function, Array, String, Boolean, Number, Date, RegExp, Error, EvalError, TypeError, RangeError, ReferenceError, SyntaxError, URIError].map(function(C){ return (typeof C === 'function' && C.prototype && C.prototype.constructor === C && gp(C) === Function.prototype) ? 1 : 0 }).join(''));
  return r.join('') })(this)`

// always-on: errors made at observation time (constructed, thrown, interpreter-raised) at depths below, at and
// beyond the stack trace limit: the number of lines of e.stack shows the limit the runtime really has
const qTrace = `(function(){ function mk(n){ return n ? mk(n - 1) : new Error('now') } function th(n){ if (n === 0) throw new TypeError('now'); th(n - 1) } function nul(n){ return n ? nul(n - 1) : null.x }
  function lines(e){ return String(e.stack).split('\n').length } function caught(f, d){ try { f(d) } catch (e) { return lines(e) } return 'none' }
  return [0, 1, 2, 3, 4, 9, 10, 11, 14, 24].map(function(d){ try { return lines(mk(d)) + '.' + caught(th, d) + '.' + caught(nul, d) } catch (e) { return 'E:' + e.name } }).join() })()`

const qCaller = `String(cg$())`

// ---------------------------------------------------------------- the dumper script

const dumperSrc = `var __dump = (function(global){
  var gOPN = Object.getOwnPropertyNames, gOPD = Object.getOwnPropertyDescriptor, gPO = Object.getPrototypeOf,
      isExt = Object.isExtensible, toStr = Object.prototype.toString, fnToStr = Function.prototype.toString,
      dateGet = Date.prototype.getTime, numVal = Number.prototype.valueOf, strVal = String.prototype.valueOf,
      boolVal = Boolean.prototype.valueOf, stringify = JSON.stringify, Str = String, create = Object.create;
  function isObj(v){ return (typeof v === 'object' && v !== null) || typeof v === 'function' }
  function num(v){ return (v === 0 && 1 / v < 0) ? '-0' : Str(v) }
  function walk(roots, stop){
    var objs = [], out = [];
    function id(o){ var i = objs.indexOf(o); if (i < 0) { i = objs.length; objs.push(o) } return i }
    function enc(v){
      if (isObj(v)) return 'o' + id(v);
      if (v === undefined) return 'u';
      if (v === null) return 'n';
      if (typeof v === 'boolean') return v ? 'b1' : 'b0';
      if (typeof v === 'number') return 'd' + num(v);
      return 's' + v;
    }
    for (var r = 0; r < roots.length; r++) id(roots[r]);
    for (var k = 0; k < objs.length; k++) {
      var o = objs[k];
      var pi = stop ? stop.indexOf(o) : -1;
      if (pi >= 0) { out.push(['#' + pi, 1, -1, '', '', []]); continue }
      var cls = toStr.call(o).slice(8, -1), pk = '', pd = '', isFn = typeof o === 'function';
      if (isFn) { pk = 'f'; pd = fnToStr.call(o) }
      if (stop && isFn && pd.slice(-17) === '{ [native code] }' && cls === 'Function' && !bound(o)) { out.push(['#native ' + pd, 1, -1, '', '', []]); continue }
      else if (cls === 'Date') { pk = 'D'; pd = num(dateGet.call(o)) }
      else if (cls === 'String') { pk = 'S'; pd = strVal.call(o) }
      else if (cls === 'Number') { pk = 'N'; pd = num(numVal.call(o)) }
      else if (cls === 'Boolean') { pk = 'B'; pd = Str(boolVal.call(o)) }
      var proto = gPO(o), names = gOPN(o), props = [];
      var protoId = proto === null ? -1 : id(proto);
      for (var j = 0; j < names.length; j++) {
        var d = gOPD(o, names[j]);
        if (!d) { props.push([names[j], 2, 0, '', '']); continue }
        var mode = (d.writable ? 4 : 0) | (d.enumerable ? 2 : 0) | (d.configurable ? 1 : 0);
        if ('value' in d || !('get' in d || 'set' in d)) props.push([names[j], 0, mode, enc(d.value), '']);
        else props.push([names[j], 1, mode, d.get === undefined ? '' : 'o' + id(d.get), d.set === undefined ? '' : 'o' + id(d.set)]);
      }
      out.push([cls, isExt(o) ? 1 : 0, protoId, pk, pd, props]);
    }
    walk.objs = objs;
    return out;
  }
  function bound(f){ var d = gOPD(f, 'name'); return !!d && typeof d.value === 'string' && d.value.slice(0, 6) === 'bound ' }
  // where a user-heap dump stops: the well-known built-in objects (by position in this list) and native functions
  var pristine = [global, Object, Function, Array, String, Boolean, Number, Math, Date, RegExp, Error, EvalError, TypeError,
    RangeError, ReferenceError, SyntaxError, URIError, JSON];
  for (var pi0 = 1; pi0 < 17; pi0++) if (pi0 !== 7) pristine.push(pristine[pi0].prototype);
  // Call every script function of the user heap that declares no parameters (guarded), in the order of a walk from
  // all user-made globals, and describe each result: primitives by value; objects by class, by the runtime they belong
  // to (the end of their prototype chain must be THIS runtime's Object.prototype), by their own property names and
  // primitive values.  It changes state like any script, so the harness runs it as a step on a runtime and its replica.
  var ObjProto = Object.prototype, builtinNames = gOPN(global);
  function owner(v){ var p = v, n = 0; while (n++ < 64) { var q = gPO(p); if (q === null) break; p = q } return p === ObjProto ? 'own' : (p === v ? 'bare' : 'FOREIGN') }
  function describe(v){
    if (!isObj(v)) return typeof v + ':' + (typeof v === 'number' ? num(v) : Str(v));
    var names = gOPN(v), parts = [];
    for (var i = 0; i < names.length && i < 12; i++) {
      if (typeof v === 'function' && names[i] === 'caller') continue;
      var d = gOPD(v, names[i]);
      parts.push(names[i] + (d && 'value' in d ? (isObj(d.value) ? '=' + toStr.call(d.value).slice(8, -1) + '/' + owner(d.value) : '=' + Str(d.value)) : '=acc'));
    }
    return toStr.call(v).slice(8, -1) + '/' + owner(v) + '/' + (gPO(v) === null ? 'null' : toStr.call(gPO(v)).slice(8, -1)) + '{' + parts.join(',') + '}';
  }
  global.__callall = function(){
    var names = gOPN(global), roots = [];
    for (var i = 0; i < names.length; i++) {
      if (builtinNames.indexOf(names[i]) >= 0 || names[i] === '__dump' || names[i] === '__callall') continue;
      var d = gOPD(global, names[i]);
      if (d && 'value' in d && isObj(d.value)) roots.push(d.value);
    }
    walk(roots, pristine);
    var objs = walk.objs, res = [];
    for (var k = 0; k < objs.length; k++) {
      var f = objs[k];
      if (typeof f !== 'function' || pristine.indexOf(f) >= 0) continue;
      var src = fnToStr.call(f), ld = gOPD(f, 'length');
      if (src.slice(-17) === '{ [native code] }' || !ld || ld.value !== 0) continue;
      var r;
      try { r = describe(f()); } catch (e) { r = 'E:' + (isObj(e) ? toStr.call(e).slice(8, -1) + '/' + owner(e) + '/' + Str(gOPD(e, 'message') && gOPD(e, 'message').value) : Str(e)); }
      res.push(k + ':' + r);
    }
    return res.join(';');
  };
  return function(names){
    if (!names) return stringify(walk([global], null));
    var roots = [];
    for (var i = 0; i < names.length; i++) { var d = gOPD(global, names[i]); if (d && 'value' in d && isObj(d.value)) roots.push(d.value) }
    return stringify(walk(roots, pristine));
  }
})(this);`

// ---------------------------------------------------------------- scenario machinery

type side struct {
	vm, rep *otto.Otto
	log     []string
	id      int
}

type entry struct {
	coq, txt, bucket string
	nontrivial       bool
}

// one generator per scenario: its own PRNG (seeded from the run's PRNG) and its own output list, so that
// scenarios can run on all cores and still come out in a deterministic order
type gen struct {
	cfg  *hostCfg // fixed host configuration of a pinned scenario
	rng  *rand.Rand
	tier string
	outs []entry
}

func (g *gen) add(coq, txt, bucket string, nontrivial bool) {
	g.outs = append(g.outs, entry{coq, txt, bucket, nontrivial})
}

func js(vm *otto.Otto, src string) string {
	o := RunJS(vm, src)
	if o.Panic != nil {
		return fmt.Sprintf("!panic %v", o.Panic)
	}
	if o.Err != nil {
		// only the class of an error is compared (message text is not ES5 observable)
		return fmt.Sprintf("!err%d", ErrClass(o))
	}
	return o.Val.String()
}

func inst(s string, k int) string { return strings.ReplaceAll(s, "$", fmt.Sprintf("_%d", k)) }

func digest(s string) string {
	u := Units(s)
	if len(u) <= 40 {
		return s
	}
	return fmt.Sprintf("#%d:%016x", len(u), hash64(u))
}

func hash64(u []uint16) uint64 {
	h := fnv.New64a()
	for _, c := range u {
		h.Write([]byte{byte(c >> 8), byte(c)})
	}
	return h.Sum64()
}

// how an observed text crosses into Coq: its UTF-16 units if it is short, otherwise its length and a
// 64-bit FNV-1a digest with the top bit set (so that it can never be mistaken for a code unit)
func cobs(s string) string {
	u := Units(s)
	if len(u) <= 8 {
		return Cunits(u)
	}
	return fmt.Sprintf("[%d; %d]", len(u), hash64(u)|1<<63)
}

func safeCopy(vm *otto.Otto) (c *otto.Otto, p interface{}) {
	defer func() {
		if r := recover(); r != nil {
			c, p = nil, r
		}
	}()
	return vm.Copy(), nil
}

// Host configuration that Copy() has to carry over: stack trace limit, stack depth limit, random source, debugger
// handler, and a Go function that evaluates a script in the runtime it is called from (call.Otto).  nil = everything
// left at its default.  trace < 0 leaves the default trace limit in place.
type hostCfg struct {
	trace, depth int
	rnd          float64
}

func (c *hostCfg) String() string {
	if c == nil {
		return "default"
	}
	return fmt.Sprintf("trace=%d depth=%d random=%v debugger hostEval", c.trace, c.depth, c.rnd)
}

func newVM(cfg *hostCfg) *otto.Otto {
	vm := otto.New()
	if cfg != nil {
		if cfg.trace >= 0 {
			vm.SetStackTraceLimit(cfg.trace)
		}
		vm.SetStackDepthLimit(cfg.depth)
		rnd := cfg.rnd
		vm.SetRandomSource(func() float64 { return rnd })
		vm.SetDebuggerHandler(func(o *otto.Otto) {
			_, _ = o.Run("dbgHits = (typeof dbgHits === 'number' ? dbgHits : 0) + 1")
		})
		_ = vm.Set("hostEval", func(call otto.FunctionCall) otto.Value {
			v, err := call.Otto.Run(call.Argument(0).String())
			if err != nil {
				return otto.UndefinedValue()
			}
			return v
		})
	}
	return vm
}

// a step of a history: a script, or (prefix "host:") a call of the host API on that runtime
func runStep(vm *otto.Otto, step string) {
	if !strings.HasPrefix(step, "host:") {
		RunJS(vm, step)
		return
	}
	var n int
	var f float64
	switch {
	case scan(step, "host:trace=%d", &n):
		vm.SetStackTraceLimit(n)
	case scan(step, "host:depth=%d", &n):
		vm.SetStackDepthLimit(n)
	case scan(step, "host:random=%g", &f):
		vm.SetRandomSource(func() float64 { return f })
	case step == "host:debugger=off":
		vm.SetDebuggerHandler(nil)
	}
}

func scan(s, format string, p interface{}) bool {
	n, err := fmt.Sscanf(s, format, p)
	return err == nil && n == 1
}

func replay(log []string, cfg *hostCfg) *otto.Otto {
	vm := newVM(cfg)
	for _, s := range log {
		runStep(vm, s)
	}
	return vm
}

type picked struct {
	f feature
	k int
}

func (p picked) qexpr() string {
	parts := make([]string, 0, len(p.f.q))
	for _, q := range p.f.q {
		parts = append(parts, "(function(){ try { return String("+inst(q, p.k)+") } catch (e) { return 'E:' + e.name } }).call(this)")
	}
	return strings.Join(parts, " + '|' + ")
}

func runC17(env *Env) {
	env.Import = "Otto.C17.Corr"
	env.Rule = "scenario = setup history H (2-6 feature instances out of 27 kinds (plus a pinned one that vandalises every global binding): closures sharing stashes, nested scopes, prototype chains, accessors, attributes and order, frozen/sealed, holders frozen/sealed/non-extensible before Copy() with getter-only/setter-only/both accessors over captured state (also behind a prototype, behind a closure, on a frozen array and function; every accessor run on copy and original in both orders), bound functions, arguments aliasing (every subset of indices unmapped before Copy(), more and fewer actuals than formals), global built-in bindings aliased / extended / deleted / rebound before Copy() with the global property order observed, errors made at recursion depth, modified built-ins, Date/RegExp/wrapper objects, arrays, with/catch/named-function scopes, cycles, sharing of one object of every class through several paths, global bindings, stateful getters, Error objects (constructed, thrown, interpreter-raised) whose message/name change after Copy() with stack/String/toString read on both sides, closures evaluating regexp/array/object/function literals, deletable/immutable scope bindings, host configuration (stack trace limit, stack depth limit, random source, debugger handler, call.Otto: non-default values set before Copy(), changed through the host API on one runtime afterwards, observed through the stack of errors made at observation time at depths around the limit, recursion depth reached, Math.random, debugger hits), closures of functions with a parameter named arguments, global eval deleted / rebound to a primitive / to another function, functions inspecting f.caller (plain, bound, method, recursive, callback); run as separate programs and cross-linked), Copy(), then 2-7 rounds each mutating one runtime (original, copy, copy of copy, later copy) or taking a further copy; right after Copy() and in some rounds every parameterless script function of the heap is called (guarded) on a runtime and its replica and its result described (class, owning runtime, own properties); after every round every runtime is compared with its replica on all observation programs and on a script dump of its user heap; non-trivial = distinct scenario with at least one mutation round and at least 3 feature kinds, or a heap-dump case"
	pinned := []feature{defArgParam, defEvalGone1, defEvalGone2, defEvalSwap, defCaller, featureByName("frozenacc"), featureByName("errors"), featureByName("literals"), featureByName("arguments"), featureByName("globals"), defGlobalsAll, featureByName("hostcfg"), featureByName("hostcfg"), featureByName("hostcfg"), featureByName("hostcfg")}
	pinnedCfg := []*hostCfg{{trace: -1, depth: 60, rnd: 0.25}, {trace: 3, depth: 30, rnd: 0.5}, {trace: 0, depth: 100, rnd: 0}, {trace: 25, depth: 45, rnd: 0.999}}
	const batch = 64
	for base := 0; env.Count() < env.N; base += batch {
		gens := make([]*gen, batch)
		var wg sync.WaitGroup
		for k := 0; k < batch; k++ {
			i := base + k
			var defect *feature
			switch {
			case i < len(pinned):
				defect = &pinned[i]
			case env.Rng.Intn(40) == 0:
				d := defCaller
				defect = &d
			}
			g := &gen{rng: rand.New(rand.NewSource(env.Rng.Int63())), tier: env.Tier}
			if i < len(pinned) && pinned[i].code == 17 {
				g.cfg = pinnedCfg[i%len(pinnedCfg)]
			}
			gens[k] = g
			wg.Add(1)
			go func() {
				defer wg.Done()
				g.scenario(defect, i)
			}()
		}
		wg.Wait()
		for _, g := range gens {
			for _, e := range g.outs {
				if env.Count() < env.N {
					env.Add(e.coq, e.txt, e.bucket, e.nontrivial)
				}
			}
		}
	}
	hookCases(env)
}

func (g *gen) scenario(defect *feature, serial int) {
	r := g.rng
	// ---- choose the features of H
	nf := 2 + r.Intn(5)
	var ps []picked
	perm := r.Perm(len(features))
	for i := 0; i < nf && i < len(perm); i++ {
		ps = append(ps, picked{features[perm[i]], i})
	}
	if r.Intn(6) == 0 { // a second instance of the same feature
		ps = append(ps, picked{ps[0].f, len(ps)})
	}
	hist := []int64{}
	var H []string
	var stepsOf [][]string
	for _, p := range ps {
		var st []string
		for _, s := range p.f.setup {
			st = append(st, inst(s, p.k))
		}
		stepsOf = append(stepsOf, st)
		hist = append(hist, p.f.code)
	}
	// interleave the setup programs of the features (order within a feature is kept)
	for {
		var live []int
		for i, st := range stepsOf {
			if len(st) > 0 {
				live = append(live, i)
			}
		}
		if len(live) == 0 {
			break
		}
		i := live[r.Intn(len(live))]
		H = append(H, stepsOf[i][0])
		stepsOf[i] = stepsOf[i][1:]
	}
	// cross links between features
	var roots, plains, rootNames []string
	for _, p := range ps {
		for _, x := range p.f.roots {
			roots = append(roots, inst(x, p.k))
		}
		for _, x := range p.f.plain {
			plains = append(plains, inst(x, p.k))
		}
	}
	rootNames = append(rootNames, roots...)
	nlinks := 0
	if len(roots) > 0 && len(plains) > 0 {
		nlinks = r.Intn(4)
	}
	for i := 0; i < nlinks; i++ {
		H = append(H, fmt.Sprintf("%s.lk%d = %s;", Pick(r, plains), i, Pick(r, roots)))
	}
	// some pre-copy mutations are part of the history as well
	var allMuts []string
	for _, p := range ps {
		for _, m := range p.f.muts {
			allMuts = append(allMuts, inst(m, p.k))
		}
	}
	for i := r.Intn(4); i > 0 && len(allMuts) > 0; i-- {
		if m := Pick(r, allMuts); !strings.HasPrefix(m, "host:") { // host API calls are steps of their own, after Copy()
			H = append(H, m)
		}
	}
	if defect != nil {
		for _, s := range defect.setup {
			H = append(H, inst(s, 99))
		}
		hist = append(hist, defect.code)
		ps = append(ps, picked{*defect, 99})
	}
	if r.Intn(3) == 0 { // the whole history as one program
		H = []string{strings.Join(H, "\n;")}
	}
	H = append([]string{dumperSrc}, H...) // the dumper is installed first, from pristine built-ins, and is copied like everything else

	if hookEnabled && (defect != nil || serial%24 == 7) {
		g.hookCase(H, hist, serial)
	}
	var qs []string
	for _, p := range ps {
		qs = append(qs, p.qexpr())
	}
	Q := strings.Join(qs, " + '#' + ")
	if !evalTouched(hist) {
		Q += " + '#' + " + qIntrinsics
	}
	Q += " + '#' + " + qTrace
	rootsJS, _ := json.Marshal(rootNames)
	QD := "__dump(" + string(rootsJS) + ")"

	var text strings.Builder
	fmt.Fprintf(&text, "H=<dumper>;%q", H[1:])
	var obs []string
	bad := false
	observe := func(s *side, tag string, deep bool) {
		add := func(q int, src string) {
			a, b := js(s.vm, src), js(s.rep, src)
			if a != b {
				bad = true
				fmt.Fprintf(&text, " ; DIFF side%d %s q%d real=%q replica=%q", s.id, tag, q, a, b)
			}
			obs = append(obs, fmt.Sprintf("(%d, %d, %s, %s)", s.id, q, cobs(a), cobs(b)))
		}
		add(0, Q)
		if deep && len(rootNames) > 0 {
			add(1, QD)
		}
		if defect != nil && defect.code == 104 {
			add(201, inst(qCaller, 99))
		}
	}

	// observation restricted to one feature (q = 3): used between the single accessor invocations of the both-orders block
	observeOnly := func(s *side, tag string, p picked) {
		src := p.qexpr()
		a, b := js(s.vm, src), js(s.rep, src)
		if a != b {
			bad = true
			fmt.Fprintf(&text, " ; DIFF side%d %s q3 real=%q replica=%q", s.id, tag, a, b)
		}
		obs = append(obs, fmt.Sprintf("(%d, 3, %s, %s)", s.id, cobs(a), cobs(b)))
	}

	var cfg *hostCfg
	for _, h := range hist {
		if h == 17 {
			cfg = g.cfg
			if cfg == nil {
				cfg = &hostCfg{trace: Pick(r, []int{-1, 0, 1, 3, 10, 11, 25}), depth: Pick(r, []int{30, 45, 60, 100}), rnd: Pick(r, []float64{0, 0.25, 0.5, 0.999})}
			}
		}
	}
	fmt.Fprintf(&text, " ; host=%s", cfg)
	// ---- original and its replica
	a := &side{vm: newVM(cfg), id: 0}
	for _, s := range H {
		runStep(a.vm, s)
	}
	a.log = append([]string{}, H...)
	a.rep = replay(a.log, cfg)
	sides := []*side{a}
	observe(a, "afterH", false)

	copyOK := true
	mkcopy := func(parent *side) *side {
		c, p := safeCopy(parent.vm)
		if p != nil {
			fmt.Fprintf(&text, " ; Copy(side%d) PANIC %v", parent.id, p)
			return nil
		}
		s := &side{vm: c, id: len(sides), log: append([]string{}, parent.log...)}
		s.rep = replay(s.log, cfg)
		fmt.Fprintf(&text, " ; side%d=Copy(side%d)", s.id, parent.id)
		return s
	}
	b := mkcopy(a)
	if b == nil {
		copyOK = false
	} else {
		sides = append(sides, b)
		g.dumpCase(a, b, rootNames, serial, &text)
		observe(a, "afterCopy", false)
		observe(b, "afterCopy", true)
		// ---- every parameterless function of the heap is called on both sides (order alternates with the serial)
		if serial%2 == 0 {
			g.applyObserved(b, "__callall()", 2, &text, &obs, &bad)
			g.applyObserved(a, "__callall()", 2, &text, &obs, &bad)
		} else {
			g.applyObserved(a, "__callall()", 2, &text, &obs, &bad)
			g.applyObserved(b, "__callall()", 2, &text, &obs, &bad)
		}
		observe(a, "callall", false)
		observe(b, "callall", false)
		// ---- accessors of holders frozen before Copy(): each one on the copy and on the original, in both orders
		nb := 0
		for _, p := range ps {
			for _, m := range p.f.both {
				first, second := b, a
				if nb%2 == 1 {
					first, second = a, b
				}
				nb++
				g.apply(first, inst(m, p.k), &text)
				observeOnly(a, "both", p)
				observeOnly(b, "both", p)
				g.apply(second, inst(m, p.k), &text)
				observeOnly(a, "both", p)
				observeOnly(b, "both", p)
			}
		}
		if nb > 0 {
			observe(a, "afterBoth", false)
			observe(b, "afterBoth", false)
		}
		// ---- rounds
		rounds := 2 + r.Intn(6)
		nm := 0
		for i := 0; i < rounds && copyOK; i++ {
			x := sides[r.Intn(len(sides))]
			switch k := r.Intn(10); {
			case k == 0 && len(sides) < 4:
				c := mkcopy(x)
				if c == nil {
					copyOK = false
					break
				}
				sides = append(sides, c)
				if r.Intn(2) == 0 {
					g.dumpCase(x, c, rootNames, serial, &text)
				}
			case k == 2 && r.Intn(2) == 0:
				g.applyObserved(x, "__callall()", 2, &text, &obs, &bad)
			case k == 1:
				m := fmt.Sprintf("var fresh%d = {made: %d, on: %d}; function freshf%d(){ return fresh%d.made }", i, i, x.id, i, i)
				g.apply(x, m, &text)
			default:
				if len(allMuts) == 0 {
					continue
				}
				m := Pick(r, allMuts)
				if m2 := Pick(r, allMuts); r.Intn(3) == 0 && !strings.HasPrefix(m, "host:") && !strings.HasPrefix(m2, "host:") {
					m = m + "; " + m2
				}
				g.apply(x, m, &text)
				nm++
			}
			for _, s := range sides {
				observe(s, fmt.Sprintf("round%d", i), i == rounds-1)
			}
		}
		_ = nm
	}
	kinds := map[string]bool{}
	for _, p := range ps {
		kinds[p.f.name] = true
	}
	bucket := "scenario"
	if defect != nil {
		bucket = "pinned-" + defect.name
	}
	if bad {
		bucket += "-diff"
	}
	coq := fmt.Sprintf("CBlack %s %s %s", Czlist(hist), Cbool(copyOK), Clist(obs))
	g.add(coq, fmt.Sprintf("black #%d hist=%v copy_ok=%v sides=%d %s", serial, hist, copyOK, len(sides), text.String()), bucket, len(kinds) >= 3)
}

// the eval witnesses rebind the global eval; the intrinsics observation uses eval and stays out of those cases
func evalTouched(hist []int64) bool {
	for _, h := range hist {
		if h == 102 || h == 103 {
			return true
		}
	}
	return false
}

// a step whose result is itself an observation (real runtime against its replica): used for __callall()
func (g *gen) applyObserved(x *side, m string, q int, text *strings.Builder, obs *[]string, bad *bool) {
	a, b := js(x.vm, m), js(x.rep, m)
	x.log = append(x.log, m)
	fmt.Fprintf(text, " ; side%d: %s", x.id, m)
	if a != b {
		*bad = true
		fmt.Fprintf(text, " ; DIFF side%d step q%d real=%q replica=%q", x.id, q, a, b)
	}
	*obs = append(*obs, fmt.Sprintf("(%d, %d, %s, %s)", x.id, q, cobs(a), cobs(b)))
}

func (g *gen) apply(x *side, m string, text *strings.Builder) {
	runStep(x.vm, m)
	runStep(x.rep, m)
	x.log = append(x.log, m)
	fmt.Fprintf(text, " ; side%d: %s", x.id, m)
}

// ---------------------------------------------------------------- script-level heap dumps -> Coq heaps

type interner struct {
	ids map[string]int64
}

func (t *interner) id(s string) int64 {
	if v, ok := t.ids[s]; ok {
		return v
	}
	v := int64(len(t.ids) + 1)
	t.ids[s] = v
	return v
}

// parse the dumper's JSON into Coq cells, object i gets location base+i
func heapOfDump(dump string, base int64, t *interner) (cells []string, n int, err error) {
	var objs [][]interface{}
	if err = json.Unmarshal([]byte(dump), &objs); err != nil {
		return nil, 0, err
	}
	ref := func(s string) string { // "o12" -> location
		var i int64
		fmt.Sscanf(s[1:], "%d", &i)
		return Cz(base + i)
	}
	val := func(s string) string {
		if strings.HasPrefix(s, "o") {
			return "VRef " + ref(s)
		}
		return fmt.Sprintf("VPrim %d %d", s[0], t.id(s[1:]))
	}
	for i, o := range objs {
		cls := o[0].(string)
		ext := o[1].(float64) != 0
		proto := int64(o[2].(float64))
		pk, pd := o[3].(string), o[4].(string)
		var props []string
		for _, p := range o[5].([]interface{}) {
			pp := p.([]interface{})
			name, kind, mode := pp[0].(string), int(pp[1].(float64)), int64(pp[2].(float64))
			a, b := pp[3].(string), pp[4].(string)
			switch kind {
			case 0:
				props = append(props, fmt.Sprintf("(%d, PData (%s) %d)", t.id(name), val(a), mode))
			case 1:
				gs := "None"
				if a != "" {
					gs = "(Some " + ref(a) + ")"
				}
				ss := "None"
				if b != "" {
					ss = "(Some " + ref(b) + ")"
				}
				props = append(props, fmt.Sprintf("(%d, PAcc %s %s %d)", t.id(name), gs, ss, mode))
			default:
				props = append(props, fmt.Sprintf("(%d, PData (VPrim 63 0) 99)", t.id(name)))
			}
		}
		pay := "PNone"
		switch pk {
		case "f":
			pay = fmt.Sprintf("(PFun %d None)", t.id(pd))
		case "D":
			pay = fmt.Sprintf("(PDate %d)", t.id(pd))
		case "S":
			pay = fmt.Sprintf("(PString %d)", t.id(pd))
		case "N":
			pay = fmt.Sprintf("(PPrim 78 %d)", t.id(pd))
		case "B":
			pay = fmt.Sprintf("(PPrim 66 %d)", t.id(pd))
		}
		ps := "None"
		if proto >= 0 {
			ps = "(Some " + Cz(base+proto) + ")"
		}
		cells = append(cells, fmt.Sprintf("(%d, CObj (mkObj %s %s %d %s %s))", base+int64(i), ps, Clist(props), t.id(cls), Cbool(ext), pay))
	}
	return cells, len(objs), nil
}

func (g *gen) dumpCase(parent, child *side, rootNames []string, serial int, text *strings.Builder) {
	r := g.rng
	full := r.Intn(30) == 0
	if !full && (len(rootNames) == 0 || r.Intn(2) == 0) {
		return
	}
	arg := ""
	if !full {
		b, _ := json.Marshal(rootNames)
		arg = string(b)
	}
	da, db := js(parent.vm, "__dump("+arg+")"), js(child.vm, "__dump("+arg+")")
	t := &interner{ids: map[string]int64{}}
	ca, na, ea := heapOfDump(da, 1, t)
	if ea != nil {
		return
	}
	cb, nb, eb := heapOfDump(db, int64(na)+1, t)
	if eb != nil {
		cb, nb = nil, 0
	}
	var phi []string
	for i := 0; i < na && i < nb; i++ {
		phi = append(phi, fmt.Sprintf("(%d, %d)", 1+i, na+1+i))
	}
	// roots: the walk numbers its roots first
	nroots := 1
	if !full {
		var cnt int
		fmt.Sscanf(js(parent.vm, "(function(g, ns){ var c = 0; ns.forEach(function(n){ var d = Object.getOwnPropertyDescriptor(g, n); if (d && 'value' in d && ((typeof d.value === 'object' && d.value !== null) || typeof d.value === 'function')) c++ }); return c })(this, "+arg+")"), "%d", &cnt)
		// distinct root objects may be fewer than names; use what the dump numbered first: at most na
		nroots = cnt
		if nroots > na {
			nroots = na
		}
	}
	_ = nroots
	rootsC := []string{}
	if na > 0 {
		rootsC = append(rootsC, "1")
	}
	// every dumped object is reachable from the walk's roots; hand all of them over as roots so that
	// the model cloner covers exactly the dumped graph whatever the number of distinct root objects was
	all := make([]string, na)
	for i := range all {
		all[i] = fmt.Sprintf("%d", 1+i)
	}
	kind := "dump-user"
	if full {
		kind = "dump-full"
	}
	same := "same"
	if da != db {
		same = "DIFFERENT"
	}
	coq := fmt.Sprintf("CDump false %s %s %s %s", Clist(ca), Clist(cb), Clist(phi), Clist(all))
	g.add(coq, fmt.Sprintf("%s #%d side%d vs its copy side%d: %d / %d objects, dump texts %s; original dump (digest) %s ; copy dump %s", kind, serial, parent.id, child.id, na, nb, same, digest(da), digest(db)), kind, true)
	_ = text
}
