// c17: correspondence cases for property C17 (Copy() yields an equivalent and fully independent runtime).
//
// Black box part (no build tag needed): generated setup histories H, Copy(), copies of copies,
// mutation programs M applied to one runtime at a time, observation programs Q; every runtime X
// is compared with its replica RX, a fresh runtime that replayed exactly the scripts that X and
// its ancestors ran.  Q(X) = Q(RX) at every point is equivalence (at the moment of Copy) and
// isolation (afterwards, both directions, copies of copies) at once, because RX only ever sees
// X's own scripts.  In addition the JavaScript-visible heap graph of a runtime and of its copy are
// dumped by a script and handed to the proven checker check_iso in Coq, together with a run of
// the model cloner on the dumped original.
//
// Hook part (build tag c17hook, needs /repo/verif_hooks_c17.go): the real Go heap (objects,
// stashes, payloads, pointer identity) of a runtime and of its copy; see dump_hook.go.
package main

import (
	"encoding/json"
	"fmt"
	"hash/fnv"
	"strings"

	"github.com/robertkrimen/otto"
	. "ottoh/lib"
)

func main() {
	env := FromFlags("c17")
	runC17(env)
	env.Finish()
}

// ---------------------------------------------------------------- features

type feature struct {
	name  string
	code  int64    // feature code in the Coq case (hist)
	setup []string // programs, run one after the other; $ = instance number
	muts  []string // mutation programs
	q     []string // observation expressions (must not change state)
	roots []string // object-valued globals other features may link to / from
	plain []string // extensible plain objects that can receive a link property
}

var features = []feature{
	{name: "counter", code: 1,
		setup: []string{`var mk$ = function(){ var n = 0, hidden = {v: 1}; return {inc: function(){ return ++n }, peek: function(){ return n + ':' + hidden.v }, poke: function(x){ hidden.v = x }, swap: function(){ hidden = {v: 'swapped' + n} }} }; var c$ = mk$(); c$.inc();`,
			`var c$b = mk$(); c$b.inc(); c$b.inc();`},
		muts:  []string{`c$.inc()`, `c$.poke(7)`, `c$.swap()`, `c$b.inc()`, `c$b.poke('p')`, `c$.inc(); c$.inc(); c$.poke(c$.inc())`, `c$.peek = function(){ return 'replaced' }`, `delete c$b.poke`},
		q:     []string{`c$.peek()`, `c$b.peek()`, `typeof c$b.poke`},
		roots: []string{"c$", "c$b"}, plain: []string{"c$", "c$b"}},
	{name: "nested", code: 2,
		setup: []string{`function outer$(a){ var x = a; return function mid(b){ var y = b; return {get: function(){ return x + ',' + y }, setx: function(v){ x = v }, sety: function(v){ y = v }} } }`,
			`var o$ = outer$(10); var n$a = o$(1), n$b = o$(2); var n$c = outer$({deep: 1})(3);`},
		muts:  []string{`n$a.setx(5)`, `n$b.sety('yy')`, `n$b.setx({toString: function(){ return 'objx' }})`, `n$a.sety(n$b)`, `n$c.setx(n$a)`, `o$ = null`, `n$a.setx(n$a.get() + '!')`},
		q:     []string{`n$a.get()`, `n$b.get()`, `typeof n$c.get()`, `typeof o$`},
		roots: []string{"n$a", "n$b", "n$c"}, plain: []string{"n$a", "n$b"}},
	{name: "proto", code: 3,
		setup: []string{`function P$(){ this.own = 1 }; P$.prototype.m = function(){ return 'm' + this.v }; P$.prototype.k = 1;`,
			`var p$ = new P$(); p$.v = 3; var q$ = Object.create(p$); q$.w = 4; var z$ = Object.create(null); z$.bare = 1; var q$2 = Object.create(q$, {dp: {value: 'dp', enumerable: true}});`},
		muts:  []string{`P$.prototype.k = 2`, `delete P$.prototype.m`, `q$.v = 9`, `Object.getPrototypeOf(q$).z = 1`, `p$.w = 'shadowed?'`, `P$.prototype = {m: function(){ return 'new' }}`, `q$.k = 'own'`, `delete q$.w`, `z$.bare++`, `P$.prototype.m = function(){ return 'patched' + this.w }`, `Object.defineProperty(p$, 'v', {get: function(){ return 'acc' }})`},
		q:     []string{`q$.k + ',' + q$.v + ',' + q$.w + ',' + (q$.m ? q$.m() : 'none')`, `(q$ instanceof P$) + ',' + P$.prototype.isPrototypeOf(q$) + ',' + (Object.getPrototypeOf(q$) === p$) + ',' + (Object.getPrototypeOf(q$2) === q$)`, `(function(){ var s = ''; for (var k in q$2) s += k + ';'; return s })()`, `z$.bare + ',' + (Object.getPrototypeOf(z$) === null) + ',' + ('toString' in z$)`, `(new P$().m || function(){ return 'nom' }).call({v: 'x', w: 'y'})`, `p$.constructor === P$`},
		roots: []string{"p$", "q$", "z$", "P$"}, plain: []string{"p$", "q$", "z$"}},
	{name: "accessor", code: 4,
		setup: []string{`var a$ = (function(){ var store = 1; var o = {}; Object.defineProperty(o, 'x', {get: function(){ return store }, set: function(v){ store = v * 2 }, enumerable: true, configurable: true}); Object.defineProperty(o, 'ro', {get: function(){ return 'ro' + store }}); Object.defineProperty(o, 'wo', {set: function(v){ store = -v }, configurable: true}); return o })();`,
			`var a$p = Object.create(a$); var a$g = {get y(){ return this._y || 'unset' }, set y(v){ this._y = v + '!' }};`},
		muts:  []string{`a$.x = 5`, `a$.wo = 3`, `Object.defineProperty(a$, 'x', {get: function(){ return 42 }})`, `a$p.x = 8`, `a$g.y = 'set'`, `delete a$.wo`, `Object.defineProperty(a$, 'wo', {get: function(){ return 'now readable' }})`, `Object.defineProperty(a$, 'x', {value: 'data now', writable: true})`, `a$.ro = 'ignored'`, `Object.defineProperty(a$g, 'y', {set: undefined})`},
		q:     []string{`a$.x + ',' + a$.ro + ',' + a$.wo`, `a$p.x + ',' + a$p.hasOwnProperty('x')`, `a$g.y + ',' + a$g._y`, `(function(){ var d = Object.getOwnPropertyDescriptor(a$, 'x') || {}; return typeof d.get + typeof d.set + d.enumerable + d.configurable + d.writable + d.value })()`, `(function(){ var d = Object.getOwnPropertyDescriptor(a$, 'wo') || {}; return typeof d.get + typeof d.set + d.enumerable + d.configurable })()`, `(function(){ var d = Object.getOwnPropertyDescriptor(a$g, 'y') || {}; return typeof d.get + typeof d.set })()`},
		roots: []string{"a$", "a$p", "a$g"}, plain: []string{"a$", "a$g"}},
	{name: "attrs", code: 5,
		setup: []string{`var t$ = {}; t$.b = 1; t$.a = 2; Object.defineProperty(t$, 'h', {value: 3, enumerable: false, writable: false, configurable: false}); t$.c = 3;`,
			`delete t$.a; t$.a = 4; t$[2] = 'two'; t$[''] = 'empty'; t$['__proto__x'] = 1; t$['é😀'] = 'uni'; Object.defineProperty(t$, 'w', {value: 1, writable: true, enumerable: false, configurable: true}); Object.defineProperty(t$, 'e', {value: 1, writable: false, enumerable: true, configurable: false});`},
		muts:  []string{`t$.z = 1`, `delete t$.b; t$.b = 5`, `Object.defineProperty(t$, 'c', {enumerable: false})`, `t$.h = 9`, `t$.w = 2`, `Object.defineProperty(t$, 'w', {writable: false})`, `delete t$.e`, `delete t$.c`, `delete t$['']`, `t$.e = 7`, `Object.defineProperty(t$, 'a', {configurable: false})`, `t$[1] = 'one'`},
		q:     []string{`Object.getOwnPropertyNames(t$).join()`, `Object.keys(t$).join()`, `(function(){ var s = ''; for (var k in t$) s += k + '=' + t$[k] + ';'; return s })()`, `(function(){ var s = ''; Object.getOwnPropertyNames(t$).forEach(function(n){ var d = Object.getOwnPropertyDescriptor(t$, n); s += n + (d.writable ? 'w' : '-') + (d.enumerable ? 'e' : '-') + (d.configurable ? 'c' : '-') + d.value + ';' }); return s })()`},
		roots: []string{"t$"}, plain: []string{"t$"}},
	{name: "frozen", code: 6,
		setup: []string{`var f$ = Object.freeze({a: 1, n: {b: 2}}); var s$ = Object.seal({a: 1}); var e$ = Object.preventExtensions({a: 1}); var u$ = {a: 1, inner: {i: 1}};`},
		muts:  []string{`f$.n.b = 3`, `s$.a = 2`, `e$.a = 5`, `delete e$.a`, `Object.freeze(u$)`, `Object.seal(u$)`, `Object.preventExtensions(u$)`, `u$.added = 1`, `f$.a = 2; f$.zz = 1`, `s$.zz = 1; delete s$.a`, `Object.freeze(u$.inner)`, `u$.inner.i++`, `u$.a = 'changed'`, `delete u$.a`},
		q:     []string{`Object.isFrozen(f$) + ',' + f$.a + ',' + f$.n.b + ',' + f$.zz`, `Object.isSealed(s$) + ',' + s$.a + ',' + s$.zz`, `Object.isExtensible(e$) + ',' + e$.a`, `Object.isFrozen(u$) + ',' + Object.isSealed(u$) + ',' + Object.isExtensible(u$) + ',' + JSON.stringify(u$) + Object.isFrozen(u$.inner)`},
		roots: []string{"f$", "s$", "e$", "u$"}, plain: []string{"u$"}},
	{name: "bound", code: 7,
		setup: []string{`var bt$ = {v: 1}; function bf$(a, b){ return this.v + ':' + (a && a.k) + ':' + b + ':' + arguments.length }; var ba$ = {k: 'arg'};`,
			`var b$ = bf$.bind(bt$, ba$); var bb$ = b$.bind(null, 'z'); var bn$ = Array.prototype.slice.bind([1, 2, 3], 1); function BC$(a, b){ this.s = a + b }; var bc$ = BC$.bind(null, 'pre');`},
		muts:  []string{`bt$.v = 2`, `ba$.k = 'changed'`, `bt$ = {v: 'rebound var only'}`, `b$.tag = 1`, `bf$ = null`, `ba$.k = {toString: function(){ return 'K' }}`, `bt$.v = ba$`, `BC$.prototype.extra = 'x'`},
		q:     []string{`b$('q') + ',' + b$.length + ',' + b$.tag`, `bb$('r', 's')`, `bn$().join()`, `new bc$('post').s + ',' + (new bc$(1) instanceof BC$) + ',' + new bc$(1).extra`, `typeof bf$`},
		roots: []string{"bt$", "ba$", "b$", "bb$"}, plain: []string{"bt$", "ba$"}},
	{name: "arguments", code: 8,
		setup: []string{`function ag$(x, y){ return {args: arguments, setx: function(v){ x = v }, getx: function(){ return x }, gety: function(){ return y }, sety: function(v){ y = v }} }`,
			`var g$ = ag$(1, 2, 3); var g$1 = ag$('only'); var g$s = (function(a, b){ 'use strict'; return arguments })(1, 2);`},
		muts:  []string{`g$.setx(9)`, `g$.args[0] = 7`, `delete g$.args[1]`, `g$.args[1] = 8`, `g$.sety('y2')`, `delete g$.args[0]`, `g$.args[2] = 'third'`, `g$.args.length = 1`, `g$1.args[1] = 'beyond'`, `g$1.setx('x1')`, `Object.defineProperty(g$.args, '0', {value: 'dp'})`, `Object.defineProperty(g$.args, '1', {writable: false})`, `g$.args.callee = null`, `g$s[0] = 5`},
		q:     []string{`g$.args[0] + ',' + g$.args[1] + ',' + g$.args[2] + ',' + g$.args.length + ',' + g$.getx() + ',' + g$.gety()`, `(g$.args.callee === ag$) + ',' + Object.prototype.toString.call(g$.args) + ',' + Object.keys(g$.args).join()`, `g$1.args[0] + ',' + g$1.args[1] + ',' + g$1.getx() + ',' + g$1.gety() + ',' + g$1.args.length`, `g$s[0] + ',' + g$s.length`},
		roots: []string{"g$", "g$1"}, plain: []string{"g$", "g$1"}},
	{name: "builtins", code: 9,
		setup: []string{`Array.prototype.last$ = function(){ return this[this.length - 1] }; String.prototype.sh$ = function(){ return this + '!' }; Object.prototype.op$ = 'inherited'; Math.c$ = 42;`,
			`Object.defineProperty(Array.prototype, 'first$', {get: function(){ return this[0] }, configurable: true}); var savedMax$ = Math.max; Math.max = function(){ return 'mymax' + savedMax$.apply(null, arguments) }; Number.prototype.toFixed = function(){ return 'fixed' }; delete String.prototype.trim; Error.prototype.name = 'E$'; JSON.extra$ = {deep: [1, 2]}; Date.prototype.ext$ = function(){ return this.getTime() + 1 }; RegExp.prototype.tag$ = 'rx'; Function.prototype.fp$ = function(){ return typeof this }; Boolean.prototype.neg$ = function(){ return !this.valueOf() };`},
		muts:  []string{`Math.max = savedMax$`, `delete Array.prototype.last$`, `Object.prototype.op$ = 'changed'`, `delete Object.prototype.op$`, `Math.c$++`, `String.prototype.trim = function(){ return 'T' }`, `Array.prototype.first$ = 1`, `Object.defineProperty(Array.prototype, 'first$', {get: function(){ return 'redefined' }})`, `JSON.extra$.deep.push(3)`, `Error.prototype.name = 'Error'`, `Math.min = Math.max`, `Object.keys = function(){ return ['hijacked'] }`, `parseInt = function(){ return -1 }`, `undefined$ = Math.abs; Math.abs = null`, `Number.prototype.toFixed = Number.prototype.toPrecision`, `delete Math.c$`, `Array.isArray = null`, `Object.freeze(Math)`, `isNaN = isFinite`},
		q:     []string{`[1, 2].last$ && [1, 2].last$()`, `typeof ''.sh$ + ',' + ({}).op$ + ',' + Math.c$ + ',' + [7, 8].first$`, `Math.max(1, 2) + ',' + Math.min(1, 2) + ',' + (5).toFixed(1) + ',' + typeof ''.trim + ',' + (''.trim && ' a '.trim())`, `new Error('x').name + ',' + JSON.stringify(JSON.extra$) + ',' + new Date(5).ext$() + ',' + /a/.tag$ + ',' + Math.max.fp$() + ',' + false.neg$()`, `Object.keys({a: 1}).join() + ',' + parseInt('12') + ',' + typeof Math.abs + ',' + typeof Array.isArray + ',' + Object.isFrozen(Math) + ',' + isNaN(1)`},
		roots: []string{}, plain: []string{}},
	{name: "wrappers", code: 10,
		setup: []string{`var d$ = new Date(86400000 * 366); var r$ = /a+/g; r$.exec('xaa'); var so$ = new String('abc'); so$.extra = 1; var no$ = new Number(5); var bo$ = new Boolean(false); var ri$ = new RegExp('B', 'im');`},
		muts:  []string{`d$.setTime(5)`, `r$.exec('aaa baa')`, `r$.lastIndex = 0`, `so$.extra = 2`, `d$.setUTCFullYear(1999)`, `d$.tag = 'd'`, `no$.x = 1`, `r$.test('a')`, `ri$.lastIndex = 3`, `d$.setUTCHours(25)`, `so$[7] = 'idx'`, `d$ = new Date(0)`},
		q:     []string{`d$.getTime() + ',' + d$.tag`, `r$.lastIndex + ',' + r$.source + ',' + r$.global + ',' + ri$.lastIndex + ',' + ri$.ignoreCase + ri$.multiline + ri$.test('ab')`, `so$ + so$.length + so$.extra + so$[1] + so$[7]`, `(no$ + 1) + ',' + no$.x + ',' + bo$.valueOf() + ',' + typeof bo$`},
		roots: []string{"d$", "r$", "so$", "no$"}, plain: []string{}},
	{name: "arrays", code: 11,
		setup: []string{`var ar$ = [1, , {x: 1}, [2, 3]]; ar$.extra = 'e'; var big$ = []; big$[100] = 'far'; var ao$ = {0: 'a', 1: 'b', length: 2};`},
		muts:  []string{`ar$.push(4)`, `ar$.length = 1`, `ar$[2].x = 5`, `ar$[3].push(9)`, `ar$.reverse()`, `ar$.sort()`, `ar$.splice(1, 1, 'sp', 'sp2')`, `ar$.shift()`, `ar$.unshift('u')`, `ar$[1] = 'filled'`, `delete ar$[0]`, `big$.length = 50`, `big$[7] = 7`, `Array.prototype.push.call(ao$, 'c')`, `Object.defineProperty(ar$, 'length', {writable: false})`, `ar$.extra = ar$`},
		q:     []string{`(function(){ try { return JSON.stringify(ar$) } catch (e) { return 'cyc' } })() + ar$.length + (1 in ar$) + typeof ar$.extra`, `big$.length + ',' + big$[100] + ',' + big$[7] + ',' + Object.keys(big$).join()`, `JSON.stringify(ao$)`},
		roots: []string{"ar$", "ao$"}, plain: []string{"ao$"}},
	{name: "with", code: 12,
		setup: []string{`var w$o = {wx: 1}; var w$, w$s, w$d; with (w$o) { w$ = function(){ return wx }; w$s = function(v){ wx = v }; w$d = function(){ return delete wx } }`,
			`var w$2; with ({inner: 'in'}) { with (w$o) { w$2 = function(){ return inner + wx } } }`},
		muts:  []string{`w$o.wx = 2`, `w$s(3)`, `w$d()`, `w$s('after')`, `w$o.inner = 'shadow'`, `w$o = {wx: 'other object'}`, `wx = 'global wx'`},
		q:     []string{`(function(){ try { return w$() } catch (e) { return 'E:' + e.name } })()`, `(function(){ try { return w$2() } catch (e) { return 'E:' + e.name } })()`, `w$o.wx + ',' + (typeof wx)`},
		roots: []string{"w$o"}, plain: []string{"w$o"}},
	{name: "catch", code: 13,
		setup: []string{`var ct$; try { throw {v: 1} } catch (ex) { ct$ = {get: function(){ return ex.v }, set: function(v){ ex = {v: v} }, mut: function(v){ ex.v = v }, raw: function(){ return ex }} }`,
			`var nf$ = function fact(n){ return n <= 1 ? 1 : n * fact(n - 1) }; var nf$2 = function self(){ return self }; var er$ = new TypeError('m$'); er$.extra = 1; var er$2; try { null.x } catch (e) { er$2 = e }`},
		muts:  []string{`ct$.set(2)`, `ct$.mut(3)`, `ct$.raw().v = 'raw'`, `er$.message = 'changed'`, `er$2.extra = 'e2'`, `nf$.memo = 1`, `er$.name = 'Custom'`},
		q:     []string{`ct$.get()`, `nf$(5) + ',' + (nf$2() === nf$2) + ',' + nf$.memo`, `er$.message + ',' + er$.name + ',' + (er$ instanceof TypeError) + ',' + er$.extra + ',' + String(er$)`, `er$2.name + ',' + (er$2 instanceof TypeError) + ',' + er$2.extra + ',' + (Object.getPrototypeOf(er$2) === TypeError.prototype)`},
		roots: []string{"ct$", "er$", "er$2"}, plain: []string{"ct$"}},
	{name: "cycles", code: 14,
		setup: []string{`var cy$ = {name: 'a'}; cy$.self = cy$; var cz$ = {peer: cy$}; cy$.peer = cz$; var sh$ = {}; var s1$ = {r: sh$}, s2$ = {r: sh$}; var gl$ = this; gl$.selfg$ = gl$;`,
			`function F$(){}; F$.stat = {a: 1}; F$.prototype.back = F$; var fi$ = new F$(); var lst$ = null; for (var i$ = 0; i$ < 40; i$++) lst$ = {next: lst$, i: i$};`},
		muts:  []string{`s1$.r.v = 1`, `cy$.self = null`, `cz$.peer = cz$`, `s2$.r = {}`, `F$.stat.a++`, `lst$.next.next.i = 'mut'`, `lst$ = lst$.next`, `selfg$.viaSelf$ = 1`, `delete gl$.selfg$`, `fi$.constructor = null`, `sh$.back = s1$`},
		q:     []string{`(cy$.self === cy$) + ',' + (cy$.peer.peer === cy$) + ',' + (s1$.r === s2$.r) + ',' + s2$.r.v + ',' + (sh$.back === s1$)`, `(typeof selfg$ !== 'undefined' && selfg$ === this) + ',' + (typeof viaSelf$) + ',' + (fi$.back === F$) + ',' + F$.stat.a + ',' + (fi$.constructor === F$)`, `(function(){ var s = '', p = lst$, n = 0; while (p) { n++; if (n < 4) s += p.i + ','; p = p.next } return s + n })()`},
		roots: []string{"cy$", "cz$", "s1$", "s2$", "fi$"}, plain: []string{"cy$", "cz$", "s1$", "s2$", "sh$"}},
	{name: "bindings", code: 15,
		setup: []string{`eval('var ev$ = 1'); var nv$ = 1; function fd$(){ return 'fd' }; var fc$ = new Function('a', 'return a + nv$'); im$ = 'implicit';`,
			`Object.defineProperty(this, 'ga$', {get: function(){ return 'getter' + nv$ }, set: function(v){ nv$ = v }, configurable: true}); Object.defineProperty(this, 'ro$', {value: 'const', writable: false, configurable: false, enumerable: false});`},
		muts:  []string{`delete ev$`, `nv$ = 2`, `ga$ = 'viaSetter'`, `delete im$`, `fd$ = function(){ return 'reassigned' }`, `ro$ = 'ignored'`, `delete ga$`, `var nv$ = 'redeclared'`, `function fd$(){ return 'redeclared fn' }`, `this.ev$ = 'again'`, `eval('var late$ = 1')`},
		q:     []string{`(typeof ev$) + ',' + nv$ + ',' + fd$() + ',' + fc$('a') + ',' + (typeof im$) + ',' + (typeof ga$ !== 'undefined' ? ga$ : 'gone') + ',' + ro$ + ',' + (typeof late$)`, `(function(g){ return ['ev$', 'nv$', 'fd$', 'im$', 'ga$', 'ro$'].map(function(n){ var d = Object.getOwnPropertyDescriptor(g, n); return d ? (d.configurable ? 'c' : '-') + (d.enumerable ? 'e' : '-') + (d.writable ? 'w' : '-') : 'none' }).join() })(this)`},
		roots: []string{}, plain: []string{}},
	{name: "getterstate", code: 16,
		setup: []string{`var gs$ = (function(){ var log = []; var target = {v: 0}; var api = {}; Object.defineProperty(api, 'hit', {get: function(){ log.push(log.length); return log.length }, enumerable: false}); api.log = function(){ return log.join('') }; api.target = target; api.bump = function(){ target.v++; return api }; return api })();`},
		muts:  []string{`gs$.hit`, `gs$.bump().bump()`, `gs$.target.v = 'direct'`, `gs$.hit; gs$.hit`, `gs$.target = {v: 'replaced'}`},
		q:     []string{`gs$.log() + ',' + gs$.target.v`},
		roots: []string{"gs$"}, plain: []string{"gs$"}},
}

// defect witnesses (pinned, one per case at most)
var (
	defArgParam = feature{name: "argparam", code: 101,
		setup: []string{`function pa$(arguments){ return function(){ return 1 } }; var pa$f = pa$(1);`},
		q:     []string{`pa$f()`}}
	defEvalGone1 = feature{name: "evalgone", code: 102, setup: []string{`var e$ = eval; eval = 1;`}, q: []string{`typeof eval`}}
	defEvalGone2 = feature{name: "evalgone", code: 102, setup: []string{`var e$ = eval; delete eval;`}, q: []string{`typeof eval`}}
	defEvalSwap  = feature{name: "evalswap", code: 103, setup: []string{`var e$ = eval; eval = parseInt; var evx$ = 'global';`}, q: []string{`typeof eval`}}
	defCaller    = feature{name: "caller", code: 104, setup: []string{`function cf$(){ return cf$.caller === cg$ }; function cg$(){ return cf$() }`}, q: []string{`typeof cf$`}}
)

const qCaller = `String(cg$())`
const qEvalSwap = `(function(){ eval = e$; var r = (function(){ var evx$ = 'local'; return eval('evx$') })(); eval = parseInt; return r })()`

// ---------------------------------------------------------------- the dumper script

const dumperSrc = `var __dump = (function(global){
  var gOPN = Object.getOwnPropertyNames, gOPD = Object.getOwnPropertyDescriptor, gPO = Object.getPrototypeOf,
      isExt = Object.isExtensible, toStr = Object.prototype.toString, fnToStr = Function.prototype.toString,
      dateGet = Date.prototype.getTime, numVal = Number.prototype.valueOf, strVal = String.prototype.valueOf,
      boolVal = Boolean.prototype.valueOf, stringify = JSON.stringify, Str = String, create = Object.create;
  function isObj(v){ return (typeof v === 'object' && v !== null) || typeof v === 'function' }
  function num(v){ return (v === 0 && 1 / v < 0) ? '-0' : Str(v) }
  function Table(){ this.objs = []; this.buckets = create(null) }
  function key(o){ return typeof o === 'function' ? 'f:' + gOPD(o, 'name').value : 'o:' + toStr.call(o) }
  function find(t, o){
    var b = t.buckets[key(o)];
    if (b) for (var i = 0; i < b.length; i++) if (t.objs[b[i]] === o) return b[i];
    return -1;
  }
  function add(t, o){
    var i = find(t, o);
    if (i >= 0) return i;
    var k = key(o);
    (t.buckets[k] || (t.buckets[k] = [])).push(t.objs.length);
    t.objs.push(o);
    return t.objs.length - 1;
  }
  function walk(roots, stop){
    var t = new Table(), objs = t.objs, out = [];
    function id(o){ return add(t, o) }
    function enc(v){
      if (isObj(v)) return 'o' + id(v);
      if (v === undefined) return 'u';
      if (v === null) return 'n';
      if (typeof v === 'boolean') return v ? 'b1' : 'b0';
      if (typeof v === 'number') return 'd' + num(v);
      return 's' + v;
    }
    for (var r = 0; r < roots.length; r++) id(roots[r]);
    for (var k = 0; k < objs.length; k++) {
      var o = objs[k];
      var pi = stop ? find(stop, o) : -1;
      if (pi >= 0) { out.push(['#' + pi, 1, -1, '', '', []]); continue }
      var cls = toStr.call(o).slice(8, -1), pk = '', pd = '', isFn = typeof o === 'function';
      if (isFn) { pk = 'f'; pd = fnToStr.call(o) }
      else if (cls === 'Date') { pk = 'D'; pd = num(dateGet.call(o)) }
      else if (cls === 'String') { pk = 'S'; pd = strVal.call(o) }
      else if (cls === 'Number') { pk = 'N'; pd = num(numVal.call(o)) }
      else if (cls === 'Boolean') { pk = 'B'; pd = Str(boolVal.call(o)) }
      var proto = gPO(o), names = gOPN(o), props = [];
      var protoId = proto === null ? -1 : id(proto);
      for (var j = 0; j < names.length; j++) {
        // getOwnPropertyDescriptor(f, 'caller') escapes as a Go panic on this interpreter (a C07 matter): not asked
        if (isFn && names[j] === 'caller') { props.push([names[j], 2, 0, '', '']); continue }
        var d = gOPD(o, names[j]);
        if (!d) { props.push([names[j], 2, 0, '', '']); continue }
        var mode = (d.writable ? 4 : 0) | (d.enumerable ? 2 : 0) | (d.configurable ? 1 : 0);
        if ('value' in d || !('get' in d || 'set' in d)) props.push([names[j], 0, mode, enc(d.value), '']);
        else props.push([names[j], 1, mode, d.get === undefined ? '' : 'o' + id(d.get), d.set === undefined ? '' : 'o' + id(d.set)]);
      }
      out.push([cls, isExt(o) ? 1 : 0, protoId, pk, pd, props]);
    }
    t.out = out;
    return t;
  }
  var pristine = walk([global], null);
  pristine.out = null;
  return function(names){
    if (!names) return stringify(walk([global], null).out);
    var roots = [];
    for (var i = 0; i < names.length; i++) { var d = gOPD(global, names[i]); if (d && 'value' in d && isObj(d.value)) roots.push(d.value) }
    return stringify(walk(roots, pristine).out);
  }
})(this);`

// ---------------------------------------------------------------- scenario machinery

type side struct {
	vm, rep *otto.Otto
	log     []string
	id      int
}

type gen struct {
	env *Env
}

func js(vm *otto.Otto, src string) string {
	o := RunJS(vm, src)
	if o.Panic != nil {
		return fmt.Sprintf("!panic %v", o.Panic)
	}
	if o.Err != nil {
		// only the class of an error is compared (message text is not ES5 observable)
		return fmt.Sprintf("!err%d", ErrClass(o))
	}
	return o.Val.String()
}

func inst(s string, k int) string { return strings.ReplaceAll(s, "$", fmt.Sprintf("_%d", k)) }

func digest(s string) string {
	u := Units(s)
	if len(u) <= 40 {
		return s
	}
	h := fnv.New64a()
	for _, c := range u {
		h.Write([]byte{byte(c >> 8), byte(c)})
	}
	return fmt.Sprintf("#%d:%016x", len(u), h.Sum64())
}

func safeCopy(vm *otto.Otto) (c *otto.Otto, p interface{}) {
	defer func() {
		if r := recover(); r != nil {
			c, p = nil, r
		}
	}()
	return vm.Copy(), nil
}

func replay(log []string) *otto.Otto {
	vm := otto.New()
	for _, s := range log {
		RunJS(vm, s)
	}
	return vm
}

type picked struct {
	f feature
	k int
}

func (p picked) qexpr() string {
	parts := make([]string, 0, len(p.f.q))
	for _, q := range p.f.q {
		parts = append(parts, "(function(){ try { return String("+inst(q, p.k)+") } catch (e) { return 'E:' + e.name } }).call(this)")
	}
	return strings.Join(parts, " + '|' + ")
}

func runC17(env *Env) {
	env.Import = "Otto.C17.Corr"
	env.Rule = "scenario = setup history H (2-6 feature instances out of 16 kinds: closures sharing stashes, nested scopes, prototype chains, accessors, attributes and order, frozen/sealed, bound functions, arguments aliasing, modified built-ins, Date/RegExp/wrapper objects, arrays, with/catch/named-function scopes, cycles and sharing, global bindings, stateful getters; run as separate programs and cross-linked), Copy(), then 2-7 rounds each mutating one runtime (original, copy, copy of copy, later copy) or taking a further copy; after every round every runtime is compared with its replica on all observation programs and on a script dump of its user heap; non-trivial = distinct scenario with at least one mutation round and at least 3 feature kinds, or a heap-dump case"
	g := &gen{env: env}
	pinned := []feature{defArgParam, defEvalGone1, defEvalGone2, defEvalSwap, defCaller}
	for i := 0; env.Count() < env.N; i++ {
		switch {
		case i < len(pinned):
			g.scenario(&pinned[i], i)
		case env.Rng.Intn(40) == 0:
			d := pinned[env.Rng.Intn(len(pinned))]
			g.scenario(&d, i)
		default:
			g.scenario(nil, i)
		}
	}
	hookCases(env)
}

func (g *gen) scenario(defect *feature, serial int) {
	r := g.env.Rng
	// ---- choose the features of H
	nf := 2 + r.Intn(5)
	var ps []picked
	perm := r.Perm(len(features))
	for i := 0; i < nf && i < len(perm); i++ {
		ps = append(ps, picked{features[perm[i]], i})
	}
	if r.Intn(6) == 0 { // a second instance of the same feature
		ps = append(ps, picked{ps[0].f, len(ps)})
	}
	hist := []int64{}
	var H []string
	var stepsOf [][]string
	for _, p := range ps {
		var st []string
		for _, s := range p.f.setup {
			st = append(st, inst(s, p.k))
		}
		stepsOf = append(stepsOf, st)
		hist = append(hist, p.f.code)
	}
	// interleave the setup programs of the features (order within a feature is kept)
	for {
		var live []int
		for i, st := range stepsOf {
			if len(st) > 0 {
				live = append(live, i)
			}
		}
		if len(live) == 0 {
			break
		}
		i := live[r.Intn(len(live))]
		H = append(H, stepsOf[i][0])
		stepsOf[i] = stepsOf[i][1:]
	}
	// cross links between features
	var roots, plains, rootNames []string
	for _, p := range ps {
		for _, x := range p.f.roots {
			roots = append(roots, inst(x, p.k))
		}
		for _, x := range p.f.plain {
			plains = append(plains, inst(x, p.k))
		}
	}
	rootNames = append(rootNames, roots...)
	nlinks := 0
	if len(roots) > 0 && len(plains) > 0 {
		nlinks = r.Intn(4)
	}
	for i := 0; i < nlinks; i++ {
		H = append(H, fmt.Sprintf("%s.lk%d = %s;", Pick(r, plains), i, Pick(r, roots)))
	}
	// some pre-copy mutations are part of the history as well
	var allMuts []string
	for _, p := range ps {
		for _, m := range p.f.muts {
			allMuts = append(allMuts, inst(m, p.k))
		}
	}
	for i := r.Intn(4); i > 0 && len(allMuts) > 0; i-- {
		H = append(H, Pick(r, allMuts))
	}
	if defect != nil {
		for _, s := range defect.setup {
			H = append(H, inst(s, 99))
		}
		hist = append(hist, defect.code)
		ps = append(ps, picked{*defect, 99})
	}
	if r.Intn(3) == 0 { // the whole history as one program
		H = []string{strings.Join(H, "\n;")}
	}
	H = append([]string{dumperSrc}, H...) // the dumper is installed first, from pristine built-ins, and is copied like everything else

	var qs []string
	for _, p := range ps {
		qs = append(qs, p.qexpr())
	}
	Q := strings.Join(qs, " + '#' + ")
	rootsJS, _ := json.Marshal(rootNames)
	QD := "__dump(" + string(rootsJS) + ")"

	var text strings.Builder
	fmt.Fprintf(&text, "H=<dumper>;%q", H[1:])
	var obs []string
	bad := false
	observe := func(s *side, tag string) {
		add := func(q int, src string) {
			a, b := js(s.vm, src), js(s.rep, src)
			if a != b {
				bad = true
				fmt.Fprintf(&text, " ; DIFF side%d %s q%d real=%q replica=%q", s.id, tag, q, a, b)
			}
			obs = append(obs, fmt.Sprintf("(%d, %d, %s, %s)", s.id, q, Cstr(digest(a)), Cstr(digest(b))))
		}
		add(0, Q)
		if len(rootNames) > 0 {
			add(1, QD)
		}
		if defect != nil && defect.code == 104 {
			add(201, inst(qCaller, 99))
		}
		if defect != nil && defect.code == 103 {
			add(203, inst(qEvalSwap, 99))
		}
	}

	// ---- original and its replica
	a := &side{vm: otto.New(), id: 0}
	for _, s := range H {
		RunJS(a.vm, s)
	}
	a.log = append([]string{}, H...)
	a.rep = replay(a.log)
	sides := []*side{a}
	observe(a, "afterH")

	copyOK := true
	mkcopy := func(parent *side) *side {
		c, p := safeCopy(parent.vm)
		if p != nil {
			fmt.Fprintf(&text, " ; Copy(side%d) PANIC %v", parent.id, p)
			return nil
		}
		s := &side{vm: c, id: len(sides), log: append([]string{}, parent.log...)}
		s.rep = replay(s.log)
		fmt.Fprintf(&text, " ; side%d=Copy(side%d)", s.id, parent.id)
		return s
	}
	b := mkcopy(a)
	if b == nil {
		copyOK = false
	} else {
		sides = append(sides, b)
		g.dumpCase(a, b, rootNames, serial, &text)
		observe(a, "afterCopy")
		observe(b, "afterCopy")
		// ---- rounds
		rounds := 2 + r.Intn(6)
		nm := 0
		for i := 0; i < rounds && copyOK; i++ {
			x := sides[r.Intn(len(sides))]
			switch k := r.Intn(10); {
			case k == 0 && len(sides) < 4:
				c := mkcopy(x)
				if c == nil {
					copyOK = false
					break
				}
				sides = append(sides, c)
				if r.Intn(2) == 0 {
					g.dumpCase(x, c, rootNames, serial, &text)
				}
			case k == 1:
				m := fmt.Sprintf("var fresh%d = {made: %d, on: %d}; function freshf%d(){ return fresh%d.made }", i, i, x.id, i, i)
				g.apply(x, m, &text)
			default:
				if len(allMuts) == 0 {
					continue
				}
				m := Pick(r, allMuts)
				if r.Intn(3) == 0 {
					m = m + "; " + Pick(r, allMuts)
				}
				g.apply(x, m, &text)
				nm++
			}
			for _, s := range sides {
				observe(s, fmt.Sprintf("round%d", i))
			}
		}
		_ = nm
	}
	kinds := map[string]bool{}
	for _, p := range ps {
		kinds[p.f.name] = true
	}
	bucket := "scenario"
	if defect != nil {
		bucket = "pinned-" + defect.name
	}
	if bad {
		bucket += "-diff"
	}
	coq := fmt.Sprintf("CBlack %s %s %s", Czlist(hist), Cbool(copyOK), Clist(obs))
	g.env.Add(coq, fmt.Sprintf("black #%d hist=%v copy_ok=%v sides=%d %s", serial, hist, copyOK, len(sides), text.String()), bucket, len(kinds) >= 3)
}

func (g *gen) apply(x *side, m string, text *strings.Builder) {
	RunJS(x.vm, m)
	RunJS(x.rep, m)
	x.log = append(x.log, m)
	fmt.Fprintf(text, " ; side%d: %s", x.id, m)
}

// ---------------------------------------------------------------- script-level heap dumps -> Coq heaps

type interner struct {
	ids map[string]int64
}

func (t *interner) id(s string) int64 {
	if v, ok := t.ids[s]; ok {
		return v
	}
	v := int64(len(t.ids) + 1)
	t.ids[s] = v
	return v
}

// parse the dumper's JSON into Coq cells, object i gets location base+i
func heapOfDump(dump string, base int64, t *interner) (cells []string, n int, err error) {
	var objs [][]interface{}
	if err = json.Unmarshal([]byte(dump), &objs); err != nil {
		return nil, 0, err
	}
	ref := func(s string) string { // "o12" -> location
		var i int64
		fmt.Sscanf(s[1:], "%d", &i)
		return Cz(base + i)
	}
	val := func(s string) string {
		if strings.HasPrefix(s, "o") {
			return "VRef " + ref(s)
		}
		return fmt.Sprintf("VPrim %d %d", s[0], t.id(s[1:]))
	}
	for i, o := range objs {
		cls := o[0].(string)
		ext := o[1].(float64) != 0
		proto := int64(o[2].(float64))
		pk, pd := o[3].(string), o[4].(string)
		var props []string
		for _, p := range o[5].([]interface{}) {
			pp := p.([]interface{})
			name, kind, mode := pp[0].(string), int(pp[1].(float64)), int64(pp[2].(float64))
			a, b := pp[3].(string), pp[4].(string)
			switch kind {
			case 0:
				props = append(props, fmt.Sprintf("(%d, PData (%s) %d)", t.id(name), val(a), mode))
			case 1:
				gs := "None"
				if a != "" {
					gs = "(Some " + ref(a) + ")"
				}
				ss := "None"
				if b != "" {
					ss = "(Some " + ref(b) + ")"
				}
				props = append(props, fmt.Sprintf("(%d, PAcc %s %s %d)", t.id(name), gs, ss, mode))
			default:
				props = append(props, fmt.Sprintf("(%d, PData (VPrim 63 0) 99)", t.id(name)))
			}
		}
		pay := "PNone"
		switch pk {
		case "f":
			pay = fmt.Sprintf("(PFun %d None)", t.id(pd))
		case "D":
			pay = fmt.Sprintf("(PDate %d)", t.id(pd))
		case "S":
			pay = fmt.Sprintf("(PString %d)", t.id(pd))
		case "N":
			pay = fmt.Sprintf("(PPrim 78 %d)", t.id(pd))
		case "B":
			pay = fmt.Sprintf("(PPrim 66 %d)", t.id(pd))
		}
		ps := "None"
		if proto >= 0 {
			ps = "(Some " + Cz(base+proto) + ")"
		}
		cells = append(cells, fmt.Sprintf("(%d, CObj (mkObj %s %s %d %s %s))", base+int64(i), ps, Clist(props), t.id(cls), Cbool(ext), pay))
	}
	return cells, len(objs), nil
}

func (g *gen) dumpCase(parent, child *side, rootNames []string, serial int, text *strings.Builder) {
	r := g.env.Rng
	full := r.Intn(14) == 0
	if !full && (len(rootNames) == 0 || r.Intn(2) == 0) {
		return
	}
	arg := ""
	if !full {
		b, _ := json.Marshal(rootNames)
		arg = string(b)
	}
	da, db := js(parent.vm, "__dump("+arg+")"), js(child.vm, "__dump("+arg+")")
	t := &interner{ids: map[string]int64{}}
	ca, na, ea := heapOfDump(da, 1, t)
	if ea != nil {
		return
	}
	cb, nb, eb := heapOfDump(db, int64(na)+1, t)
	if eb != nil {
		cb, nb = nil, 0
	}
	var phi []string
	for i := 0; i < na && i < nb; i++ {
		phi = append(phi, fmt.Sprintf("(%d, %d)", 1+i, na+1+i))
	}
	// roots: the walk numbers its roots first
	nroots := 1
	if !full {
		var cnt int
		fmt.Sscanf(js(parent.vm, "(function(g, ns){ var c = 0; ns.forEach(function(n){ var d = Object.getOwnPropertyDescriptor(g, n); if (d && 'value' in d && ((typeof d.value === 'object' && d.value !== null) || typeof d.value === 'function')) c++ }); return c })(this, "+arg+")"), "%d", &cnt)
		// distinct root objects may be fewer than names; use what the dump numbered first: at most na
		nroots = cnt
		if nroots > na {
			nroots = na
		}
	}
	_ = nroots
	rootsC := []string{}
	if na > 0 {
		rootsC = append(rootsC, "1")
	}
	// every dumped object is reachable from the walk's roots; hand all of them over as roots so that
	// the model cloner covers exactly the dumped graph whatever the number of distinct root objects was
	all := make([]string, na)
	for i := range all {
		all[i] = fmt.Sprintf("%d", 1+i)
	}
	kind := "dump-user"
	if full {
		kind = "dump-full"
	}
	same := "same"
	if da != db {
		same = "DIFFERENT"
	}
	coq := fmt.Sprintf("CDump false %s %s %s %s", Clist(ca), Clist(cb), Clist(phi), Clist(all))
	g.env.Add(coq, fmt.Sprintf("%s #%d side%d vs its copy side%d: %d / %d objects, dump texts %s; original dump (digest) %s ; copy dump %s", kind, serial, parent.id, child.id, na, nb, same, digest(da), digest(db)), kind, true)
	_ = text
}
