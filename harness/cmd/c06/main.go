// c06: correspondence cases for property C06 (numbers <-> text).
package main

import (
	"fmt"
	"math"
	"math/big"
	"math/rand"
	"strconv"
	"strings"
	"unicode/utf16"

	"github.com/robertkrimen/otto"
	. "ottoh/lib"
)

func main() {
	env := FromFlags("c06")
	runC06(env)
	env.Finish()
}

type gen struct {
	env *Env
	vm  *otto.Otto
	r   *rand.Rand
	// for the near-tie bucket: number of fraction digits resp. significant digits in front of the final 5
	hintFrac, hintSig int
}

// ---------- observations ----------

// result of an expression that yields a string or throws: Coq `res` term and a readable form
func (g *gen) strRes(src string) (string, string) {
	o := RunJS(g.vm, src)
	if c := ErrClass(o); c != 0 {
		return fmt.Sprintf("(RErr %d)", c), fmt.Sprintf("!err%d", c)
	}
	if !o.Val.IsString() {
		return "(RErr 8)", "!notstring " + o.Val.String()
	}
	s := o.Val.String()
	return "(RStr " + Cstr(s) + ")", strconv.Quote(s)
}

// result of an expression that yields a number: bits, ok (false: error or not a number)
func (g *gen) numRes(src string) (uint64, bool, string) {
	o := RunJS(g.vm, src)
	if c := ErrClass(o); c != 0 {
		return 0, false, fmt.Sprintf("!err%d", c)
	}
	if !o.Val.IsNumber() {
		return 0, false, "!notnumber " + o.Val.String()
	}
	f, err := o.Val.ToFloat()
	if err != nil {
		return 0, false, "!tofloat"
	}
	return Dbits(f), true, fmtF(f)
}

func (g *gen) boolRes(src string) bool {
	o := RunJS(g.vm, src)
	if ErrClass(o) != 0 || !o.Val.IsBoolean() {
		return false
	}
	b, _ := o.Val.ToBoolean()
	return b
}

func fmtF(f float64) string {
	if f == 0 && math.Signbit(f) {
		return "-0"
	}
	return strconv.FormatFloat(f, 'g', 17, 64) + fmt.Sprintf("[%016x]", Dbits(f))
}

// bind x to exactly the double f: either through the API (float64 kind) or, for
// values that have an integer / short literal form, through source text
func (g *gen) setX(f float64) string {
	how, _ := g.setXk(f, false)
	return how
}

// setXk also reports whether x was bound through a positive integer literal that fits int64:
// otto keeps such a value as an int64 payload (parseNumberLiteral's ParseInt succeeds), and
// Value.string() prints every digit of it.  A negated literal goes through unary minus and is a float64.
func (g *gen) setXk(f float64, forceLit bool) (string, bool) {
	if (forceLit || g.r.Intn(4) == 0) && !math.IsNaN(f) && !math.IsInf(f, 0) && !(f == 0 && math.Signbit(f)) {
		lit := JSNum(f)
		if v, err := strconv.ParseFloat(strings.Trim(lit, "()"), 64); err == nil && v == f {
			if o := RunJS(g.vm, "var x = "+lit+";"); ErrClass(o) == 0 {
				intlit := f >= 0 && f < 9223372036854775808 && strings.Trim(lit, "0123456789") == ""
				return "x=" + lit, intlit
			}
		}
	}
	Must(g.vm.Set("x", f))
	return "x=" + fmtF(f), false
}

// ---------- doubles ----------

func pow10f(k int) float64 {
	f, _ := strconv.ParseFloat("1e"+strconv.Itoa(k), 64)
	return f
}

func nudge(r *rand.Rand, f float64) float64 {
	n := r.Intn(7) - 3
	for ; n > 0; n-- {
		f = math.Nextafter(f, math.Inf(1))
	}
	for ; n < 0; n++ {
		f = math.Nextafter(f, math.Inf(-1))
	}
	return f
}

func (g *gen) sign(f float64) float64 {
	if g.r.Intn(4) == 0 {
		return -f
	}
	return f
}

func (g *gen) double() (float64, string) {
	r := g.r
	switch r.Intn(17) {
	case 16:
		// integers from 2^53 up that still print as plain digits with %.17g (below 1e17) resp. fit int64:
		// bound through an integer literal they are int64 payloads inside otto
		v := float64(int64(1)<<53 + r.Int63n(100000000000000000-int64(1)<<53))
		if r.Intn(4) == 0 {
			v = float64(r.Int63n(1 << 53))
		}
		return v, "int-literal"
	case 0, 1:
		return math.Float64frombits(r.Uint64()), "random-bits"
	case 2:
		bits := r.Uint64() & (1<<52 - 1)
		switch r.Intn(4) {
		case 0:
			bits = uint64(r.Intn(20) + 1)
		case 1:
			bits = 1<<52 - 1 - uint64(r.Intn(4))
		}
		return g.sign(math.Float64frombits(bits)), "subnormal"
	case 3, 4:
		k := r.Intn(308+323+1) - 323
		if r.Intn(2) == 0 {
			k = r.Intn(60) - 30
		}
		return g.sign(nudge(r, pow10f(k))), "pow10-neighbour"
	case 5:
		k := r.Intn(1024+1074) - 1074
		if r.Intn(2) == 0 {
			k = r.Intn(140) - 70
		}
		return g.sign(nudge(r, math.Ldexp(1, k))), "pow2-neighbour"
	case 6:
		// exact decimal ties: odd / 2^j has exactly j fraction digits, the last one 5
		j := r.Intn(12) + 1
		n := float64(2*r.Intn(4000) + 1)
		return g.sign(n / math.Ldexp(1, j)), "decimal-tie"
	case 7:
		// k.5 * 10^j style ties for toExponential/toPrecision on integers
		n := float64(r.Intn(100000))*10 + 5
		return g.sign(n * math.Pow(10, float64(r.Intn(8)))), "decimal-tie"
	case 8:
		v := Pick(r, []float64{1e21, 1e-6, 1e-7, 1e20, 1e22, 123456789012345680000, 1e-5, 9.5e-7, 999999999999999868928, 0.000001, 1.5e-7})
		return g.sign(nudge(r, v)), "threshold"
	case 9:
		v := Pick(r, []float64{9007199254740992, 9223372036854775808, 18446744073709551616, 4294967296, 2147483648, 4503599627370496, 1180591620717411303424})
		return g.sign(nudge(r, v)), "int-boundary"
	case 10:
		return g.sign(float64(r.Int63n(1 << 53))), "integer"
	case 11:
		return g.sign(float64(r.Intn(100000))), "small-integer"
	case 12:
		return Pick(r, []float64{math.NaN(), math.Inf(1), math.Inf(-1), 0, math.Copysign(0, -1), math.MaxFloat64, -math.MaxFloat64, math.SmallestNonzeroFloat64, 2.2250738585072014e-308}), "special"
	case 13:
		// short human decimals
		nd := r.Intn(6) + 1
		m := r.Int63n(int64(math.Pow10(nd)))
		f, _ := strconv.ParseFloat(fmt.Sprintf("%de%d", m, r.Intn(40)-25), 64)
		return g.sign(f), "short-decimal"
	case 14:
		// 15..17 digit decimals
		m := r.Int63n(1e17)
		f, _ := strconv.ParseFloat(fmt.Sprintf("%de%d", m, r.Intn(600)-320), 64)
		return g.sign(f), "long-decimal"
	default:
		// moderate exponents, random mantissa
		bits := r.Uint64()&(1<<52-1) | uint64(1023+r.Intn(140)-70)<<52
		return g.sign(math.Float64frombits(bits)), "moderate"
	}
}

// receivers that the formatters must answer before (or independently of) their digit-count test
func (g *gen) specialReceiver() (float64, string) {
	return Pick(g.r, []float64{math.Inf(1), math.Inf(-1), math.NaN(), math.Copysign(0, -1), 0, math.Inf(1), math.Inf(-1), -5e-324, -1e-30}), "special"
}

// short decimal literals d.dd..5 (1-4 significant digits in front of the final 5): the double nearest to
// such a decimal is a hair below, a hair above or (for k/2^j) exactly on the tie of the rounding that
// drops the 5; also the doubles next to it
func (g *gen) nearTie() (float64, string) {
	r := g.r
	k := r.Intn(4) + 1 // significant digits kept
	lead := r.Intn(9*int(math.Pow10(k-1))) + int(math.Pow10(k-1))
	digits := strconv.Itoa(lead) + "5"
	frac := r.Intn(8) // position of the point: number of fraction digits 0..7 (+ length adjustments)
	if frac == 0 {
		frac = 1
	}
	var text string
	if frac >= len(digits) {
		text = "0." + strings.Repeat("0", frac-len(digits)) + digits
	} else {
		text = digits[:len(digits)-frac] + "." + digits[len(digits)-frac:]
	}
	f, _ := strconv.ParseFloat(text, 64)
	switch r.Intn(8) {
	case 0:
		f = math.Nextafter(f, math.Inf(1))
	case 1:
		f = math.Nextafter(f, 0)
	}
	g.hintFrac, g.hintSig = frac-1, k
	return g.sign(f), "near-tie"
}

func intDouble(g *gen) (float64, string) {
	r := g.r
	switch r.Intn(9) {
	case 8:
		return float64(int64(1)<<53 + r.Int63n(100000000000000000-int64(1)<<53)), "int-literal"
	case 0:
		return g.sign(float64(r.Int63n(1 << 53))), "integer"
	case 1:
		return g.sign(nudge(r, Pick(r, []float64{9223372036854775808, 18446744073709551616, 9007199254740992, 1180591620717411303424}))), "int-boundary"
	case 2:
		return g.sign(float64(r.Intn(4096))), "small-integer"
	case 3:
		return g.sign(math.Ldexp(float64(r.Int63n(1<<53)|1<<52), r.Intn(200))), "big-integer"
	case 4:
		return g.sign(float64(r.Int63n(1<<53)) / float64(int64(1)<<uint(r.Intn(20)+1))), "fraction"
	case 5:
		return Pick(r, []float64{math.NaN(), math.Inf(1), math.Inf(-1), 0, math.Copysign(0, -1), 0.5, -0.5, 0.1, 1e21, 255.5}), "special"
	default:
		return g.sign(float64(r.Int63())), "int63"
	}
}

// ---------- texts ----------

var wsRunes = []rune{' ', '\t', '\n', '\v', '\f', '\r', 0xA0, 0x1680, 0x2000, 0x2001, 0x2002, 0x2003, 0x2004, 0x2005, 0x2006, 0x2007, 0x2008, 0x2009, 0x200A, 0x2028, 0x2029, 0x202F, 0x205F, 0x3000, 0xFEFF}

func (g *gen) ws() string {
	r := g.r
	if r.Intn(3) > 0 {
		return ""
	}
	var b strings.Builder
	for n := r.Intn(3) + 1; n > 0; n-- {
		b.WriteRune(Pick(r, wsRunes))
	}
	return b.String()
}

func (g *gen) digits(n int) string {
	var b strings.Builder
	for i := 0; i < n; i++ {
		b.WriteByte(byte('0' + g.r.Intn(10)))
	}
	return b.String()
}

// a StrUnsignedDecimalLiteral (not Infinity)
func (g *gen) unsignedDecimal() string {
	r := g.r
	var s string
	ni := Pick(r, []int{1, 1, 2, 3, 5, 9, 17, 19, 20, 21, 25, 40})
	nf := Pick(r, []int{0, 1, 1, 2, 3, 6, 10, 17, 22, 30})
	switch r.Intn(5) {
	case 0:
		s = g.digits(ni)
	case 1:
		s = g.digits(ni) + "."
	case 2:
		s = "." + g.digits(nf+1)
	default:
		s = g.digits(ni) + "." + g.digits(nf)
	}
	if r.Intn(3) == 0 {
		ex := r.Intn(40) - 20
		switch r.Intn(6) {
		case 0:
			ex = r.Intn(700) - 350
		case 1:
			ex = Pick(r, []int{308, 309, 310, -323, -324, -325, 400, -400, 1000, -1000, 22, 23, -22})
		}
		s += Pick(r, []string{"e", "E"})
		if ex < 0 {
			s += "-" + strconv.Itoa(-ex)
		} else {
			s += Pick(r, []string{"", "+"}) + strconv.Itoa(ex)
		}
	}
	return s
}

// text of a double in one of several exact or shortest notations
func (g *gen) doubleText(f float64) string {
	r := g.r
	if math.IsNaN(f) {
		return "NaN"
	}
	if math.IsInf(f, 0) {
		if f < 0 {
			return "-Infinity"
		}
		return Pick(r, []string{"Infinity", "+Infinity"})
	}
	switch r.Intn(5) {
	case 0:
		return strconv.FormatFloat(f, 'e', -1, 64)
	case 1:
		return strconv.FormatFloat(f, 'e', 16, 64)
	case 2:
		return strconv.FormatFloat(f, 'g', 17+r.Intn(8), 64)
	case 3:
		if math.Abs(f) < 1e25 && math.Abs(f) > 1e-25 {
			return strconv.FormatFloat(f, 'f', -1, 64)
		}
		return strconv.FormatFloat(f, 'g', -1, 64)
	default:
		return strconv.FormatFloat(f, 'g', -1, 64)
	}
}

// exact decimal text of (f + next(f)) / 2, optionally moved a hair off the tie
func (g *gen) midpointText() string {
	r := g.r
	var f float64
	switch r.Intn(4) {
	case 0:
		f = math.Float64frombits(r.Uint64()&(1<<52-1) | uint64(1023+r.Intn(120)-60)<<52)
	case 1:
		f = float64(r.Int63n(1<<53) | 1<<52) // 2^52..2^53: midpoints are k + 0.5
	case 2:
		f = math.Float64frombits(uint64(r.Intn(50))) // smallest subnormals
	default:
		f = nudge(r, math.Ldexp(1, r.Intn(200)-100))
		f = math.Abs(f)
	}
	if math.IsInf(f, 0) || math.IsNaN(f) {
		f = 1
	}
	f = math.Abs(f)
	n := math.Nextafter(f, math.Inf(1))
	a, b := new(big.Rat).SetFloat64(f), new(big.Rat).SetFloat64(n)
	if a == nil || b == nil {
		return "1"
	}
	mid := new(big.Rat).Add(a, b)
	mid.Quo(mid, big.NewRat(2, 1))
	// denominator is a power of two 2^k: exactly k fraction digits
	k := mid.Denom().BitLen() - 1
	s := mid.FloatString(k)
	switch r.Intn(3) {
	case 0:
		if !strings.Contains(s, ".") {
			s += "."
		}
		s += Pick(r, []string{"1", "0000000000000000000001", "000"})
	case 1:
		// just below: decrement the last non-zero digit and append 9s
		bs := []byte(s)
		for i := len(bs) - 1; i >= 0; i-- {
			if bs[i] >= '1' && bs[i] <= '9' {
				bs[i]--
				break
			}
		}
		s = string(bs)
		if strings.Contains(s, ".") {
			s += "99999999"
		}
	}
	// optionally rewrite d.ddd as ddddE-k
	if r.Intn(3) == 0 && strings.Contains(s, ".") {
		i := strings.Index(s, ".")
		frac := len(s) - i - 1
		s = strings.TrimLeft(s[:i]+s[i+1:], "0")
		if s == "" {
			s = "0"
		}
		s += "e-" + strconv.Itoa(frac)
	}
	return s
}

const mutAlphabet = "0123456789..eE+-xX_ \tInfinityinfNaNaAfFpP,"

func (g *gen) mutate(s string, alphabet string) string {
	r := g.r
	rs := []rune(s)
	al := []rune(alphabet)
	for n := r.Intn(2) + 1; n > 0; n-- {
		switch r.Intn(4) {
		case 0: // insert
			i := r.Intn(len(rs) + 1)
			rs = append(rs[:i], append([]rune{Pick(r, al)}, rs[i:]...)...)
		case 1: // delete
			if len(rs) > 0 {
				i := r.Intn(len(rs))
				rs = append(rs[:i], rs[i+1:]...)
			}
		case 2: // replace
			if len(rs) > 0 {
				rs[r.Intn(len(rs))] = Pick(r, al)
			}
		default: // duplicate a character
			if len(rs) > 0 {
				i := r.Intn(len(rs))
				rs = append(rs[:i], append([]rune{rs[i]}, rs[i:]...)...)
			}
		}
	}
	return string(rs)
}

var nearMissPool = []string{
	"", " ", ".", "+", "-", "e", "e5", ".e5", "1e", "1e+", "1e-", "+.", "-.", "..5", ".5.", "1..", "1.5.5", "1 2", "1,5",
	"inf", "Inf", "INF", "+inf", "-inf", "infinity", "INFINITY", "Infinit", "Infinityx", "+Infinity", "-Infinity", "Infinity", " Infinity ",
	"InfinityInfinity", "Infin", "I", "nan", "NaN", "NAN", "+NaN", "-nan",
	"1_0", "1_000", "1__0", "_1", "1_", "1_.5", "1._5", "1e1_0", "0x_1", "0x1_0", "0_1",
	"0x", "0X", "0x1", "0XfF", "0x1g", "-0x10", "+0x10", "0x1.8p1", "0x1p3", "+0x1p3", "-0x1P-2", "0x.8p1", "0x1.8", "0x1p", "0x1.p1",
	"0b101", "0o17", "017", "08", "09", "00", "0.", ".0", "-0", "+0", "-0.0", "0e0", "-0e-5", "00.5",
	"1e1000", "-1e1000", "1e-1000", "1e309", "1.7976931348623157e308", "1.7976931348623158e308", "1.7976931348623159e308",
	"179769313486231580793728971405303415079934132710037826936173778980444968292764750946649017977587207096330286416692887910946555547851940402630657488671505820681908902000708383676273854845817711531764475730270069855571366959622842914819860834936475292719074168444365510704342711559699508093042880177904174497791.9999999999999999999999999999999999",
	"179769313486231580793728971405303415079934132710037826936173778980444968292764750946649017977587207096330286416692887910946555547851940402630657488671505820681908902000708383676273854845817711531764475730270069855571366959622842914819860834936475292719074168444365510704342711559699508093042880177904174497792",
	"4.9e-324", "2.4703282292062327e-324", "2.4703282292062328e-324", "2.47032822920623272088284396434110686182e-324", "2.470328229206232720882843964341106861825299013071623822127928412503377536351043e-324", "2.470328229206232720882843964341106861825299013071623822127928412503377536351044e-324",
	"2.2250738585072011e-308", "2.2250738585072012e-308", "2.2250738585072014e-308",
	"9007199254740993", "9007199254740992.5", "9007199254740993.0000000000000000000000001", "9007199254740995", "18446744073709551616", "18446744073709551615",
	"0.500000000000000166533453693773481063544750213623046875", "0.50000000000000016653345369377348106354475021362304687500000000000000000000001", "0.5000000000000001665334536937734810635447502136230468749999",
	"1e23", "8.41e21", "9.5e21", "5e-324", "3e-324", "1e-7", "123456789012345678901234567890", "0.000001", "1.0e+0", "١٢٣", "１２３", "1\u00002", "1e5\u0000",
	"12inf", "1infinity", "xinfinity", "1eInf", "5Inf", "1e5Inf",
}

// zero in every spelling, with every sign: the result differs only in the sign bit
func (g *gen) zeroText() string {
	r := g.r
	body := Pick(r, []string{"0", "0", "00", "000", "000000000000000", "00000000000000000", "000000000000000000", "0000000000000000000000000",
		"0.0", "0.", ".0", ".000", "0.000000", "0e0", "0e5", "0E-5", "0e+400", "0e-400", "0.0e1", ".0e-1", "00.0", "0x0", "0X00", "0.00000000000000000000000000000000000"})
	if r.Intn(2) == 0 {
		body = strings.Repeat("0", r.Intn(22)+1) // plain integer zeros of every length
	}
	return Pick(r, []string{"-", "-", "-", "+", ""}) + body
}

// decimal integer strings of every length 1..25 (sign and leading zeros included in what strconv
// sees), around the int64 boundary, and with exact 2^k / 10^k values
func (g *gen) integerText() string {
	r := g.r
	var body string
	switch r.Intn(6) {
	case 0:
		body = Pick(r, []string{"9223372036854775807", "9223372036854775808", "9223372036854775809", "9223372036854775806", "18446744073709551615", "18446744073709551616",
			"999999999999999999", "1000000000000000000", "99999999999999999", "100000000000000000", "9007199254740991", "9007199254740992", "9007199254740993",
			"2147483647", "2147483648", "4294967295", "4294967296", "1", "9", "10"})
	case 1:
		body = strings.Repeat("0", r.Intn(20)) + g.digits(r.Intn(8)+1)
	default:
		n := r.Intn(25) + 1
		body = string(byte('1'+r.Intn(9))) + g.digits(n-1)
		if r.Intn(4) == 0 {
			body = strings.Repeat("0", r.Intn(4)+1) + body
		}
	}
	return Pick(r, []string{"", "", "-", "-", "+"}) + body
}

// a decimal whose value overflows the double range, optionally followed by something that is not part of it
func (g *gen) overflowText(junk bool) string {
	r := g.r
	var body string
	switch r.Intn(5) {
	case 0:
		body = g.digits(r.Intn(3)+1) + "e" + strconv.Itoa(Pick(r, []int{309, 310, 400, 999, 1000, 5000, 308 + r.Intn(5)}))
	case 1:
		body = string(byte('2'+r.Intn(8))) + "." + g.digits(r.Intn(5)) + Pick(r, []string{"e308", "E308", "e+308", "e0308"})
	case 2:
		body = string(byte('1'+r.Intn(9))) + g.digits(309+r.Intn(30)) + Pick(r, []string{"", ".", ".5", "e0", "e1"})
	case 3:
		body = "1.7976931348623159" + Pick(r, []string{"e308", "e+308", "E308"})
	default:
		body = "0." + g.digits(3) + "1e" + strconv.Itoa(313+r.Intn(700))
	}
	body = Pick(r, []string{"", "", "-", "+"}) + body
	if junk {
		body += Pick(r, []string{"px", "abc", ";", ".5", "e", "e5", "e+", "_", "_0", "x", " 1", " ", "Infinity", "inf", "f", "-", "+1", ",", "é", "..", "p3", "\u0000"})
	}
	return body
}

func showUnits(u []uint16) string {
	var b strings.Builder
	b.WriteByte('"')
	for _, c := range u {
		if c >= 0x20 && c < 0x7f && c != '"' && c != '\\' {
			b.WriteByte(byte(c))
		} else {
			fmt.Fprintf(&b, "\\u%04x", c)
		}
	}
	b.WriteByte('"')
	return b.String()
}

func codeList(u []uint16) string {
	parts := make([]string, len(u))
	for i, c := range u {
		parts[i] = strconv.Itoa(int(c))
	}
	return strings.Join(parts, ",")
}

// bind s to the string with exactly these UTF-16 code units, through one of the ways a script or
// the host can make a string: host Go string, literal, String.fromCharCode (otto's []uint16
// representation), concatenations of both kinds, a charAt-rebuilt copy.  The binding is verified
// unit by unit inside the script; if a route cannot carry the text, fromCharCode is used.
func (g *gen) setS(u []uint16) string {
	r := g.r
	hasSurrogate, nonASCII := false, false
	for _, c := range u {
		if c >= 0xD800 && c <= 0xDFFF {
			hasSurrogate = true
		}
		if c >= 0x80 {
			nonASCII = true
		}
	}
	route := r.Intn(10)
	if nonASCII && r.Intn(2) == 0 {
		route = 4 + r.Intn(6)
	}
	if len(u) == 0 || (hasSurrogate && route < 4) {
		if len(u) == 0 {
			route = 0
		} else {
			route = 4
		}
	}
	how := ""
	switch {
	case route < 3:
		Must(g.vm.Set("s", string(utf16.Decode(u))))
		how = "host string"
	case route == 3:
		RunJS(g.vm, "var s = "+JSStr(u)+";")
		how = "literal"
	case route < 7:
		RunJS(g.vm, "var s = String.fromCharCode("+codeList(u)+");")
		how = "fromCharCode"
	case route == 7:
		k := r.Intn(len(u) + 1)
		RunJS(g.vm, "var s = String.fromCharCode("+codeList(u[:k])+") + String.fromCharCode("+codeList(u[k:])+");")
		how = "fromCharCode+fromCharCode"
	case route == 8:
		k := r.Intn(len(u) + 1)
		if hasSurrogate {
			k = len(u)
		}
		RunJS(g.vm, "var s = String.fromCharCode("+codeList(u[:k])+") + "+JSStr(u[k:])+";")
		how = "fromCharCode+literal"
	default:
		RunJS(g.vm, "var t = String.fromCharCode("+codeList(u)+"); var s = ''; for (var i = 0; i < t.length; i++) { s += t.charAt(i); }")
		how = "charAt copy of fromCharCode"
	}
	if !g.boolRes("(function(){var c = ["+codeList(u)+"]; if (typeof s !== 'string' || s.length !== c.length) return false; for (var i = 0; i < c.length; i++) { if (s.charCodeAt(i) !== c[i]) return false; } return true})()") {
		RunJS(g.vm, "var s = String.fromCharCode("+codeList(u)+");")
		how = "fromCharCode (fallback)"
	}
	return how
}

var allWS = []uint16{9, 10, 11, 12, 13, 32, 0xA0, 0x1680, 0x2000, 0x2001, 0x2002, 0x2003, 0x2004, 0x2005, 0x2006, 0x2007, 0x2008, 0x2009, 0x200A, 0x2028, 0x2029, 0x202F, 0x205F, 0x3000, 0xFEFF}

// texts that only exist at the level of code units: a numeral wrapped in each StrWhiteSpaceChar,
// ASCII numerals with characters replaced by code units that have the same low byte, other
// scripts' digits, lone surrogates
func (g *gen) unitText() ([]uint16, string) {
	r := g.r
	base := Pick(r, []string{"7", "12", "-1.5", "+3e2", ".5", "0", "-0", "1e3", "0x1f", "Infinity", "-Infinity", "15", "2.50", "1e-7", "9007199254740993", "  42  ", "0.1", "-.5e1", "10", "NaN", "", "0x-1F", "0x+1", "0X-a", "-0x1"})
	if r.Intn(3) == 0 {
		base = Pick(r, []string{"", "", "-", "+"}) + g.unsignedDecimal()
	}
	u := Units(base)
	switch r.Intn(7) {
	case 0, 1:
		// every white space character, on either side
		pre, post := []uint16{}, []uint16{}
		for n := r.Intn(3); n >= 0; n-- {
			pre = append(pre, Pick(r, allWS))
		}
		for n := r.Intn(3); n > 0; n-- {
			post = append(post, Pick(r, allWS))
		}
		if r.Intn(3) == 0 {
			pre = nil
		}
		out := append(append(pre, u...), post...)
		if r.Intn(6) == 0 && len(u) > 1 {
			// white space inside the numeral is not allowed
			k := 1 + r.Intn(len(u)-1)
			out = append(append(append([]uint16{}, u[:k]...), Pick(r, allWS)), u[k:]...)
			return out, "unit-ws-inside"
		}
		return out, "unit-ws"
	case 2, 3:
		// same low byte as an ASCII character of the numeral
		if len(u) == 0 {
			u = Units("1")
		}
		out := append([]uint16{}, u...)
		for n := r.Intn(2) + 1; n > 0; n-- {
			i := r.Intn(len(out))
			hi := uint16(r.Intn(255) + 1)
			if hi >= 0xD8 && hi <= 0xDF {
				hi = 0x01
			}
			out[i] = out[i]&0xFF | hi<<8
		}
		return out, "unit-low-byte-alias"
	case 4:
		// digits of other scripts, dotless i, fullwidth signs
		out := []uint16{}
		for _, c := range u {
			switch {
			case c >= '0' && c <= '9' && r.Intn(2) == 0:
				out = append(out, Pick(r, []uint16{0xFF10, 0x0660, 0x06F0, 0x0966})+(c-'0'))
			case c == '1' && r.Intn(2) == 0:
				out = append(out, 0x0131)
			case c == '-' && r.Intn(2) == 0:
				out = append(out, Pick(r, []uint16{0x2212, 0xFF0D, 0x2010}))
			case c == '.' && r.Intn(2) == 0:
				out = append(out, Pick(r, []uint16{0xFF0E, 0x2E, 0x062E}))
			default:
				out = append(out, c)
			}
		}
		return out, "unit-other-digits"
	case 5:
		// lone surrogates and unpaired halves around / inside the numeral
		sur := Pick(r, []uint16{0xD800, 0xDBFF, 0xDC00, 0xDFFF, 0xD835})
		k := r.Intn(len(u) + 1)
		out := append(append(append([]uint16{}, u[:k]...), sur), u[k:]...)
		if r.Intn(4) == 0 {
			out = append(out, 0xDC00) // may complete a pair
		}
		return out, "unit-surrogate"
	default:
		// the aliases named in the wild: U+0131, U+0237 ('7'), U+2E65 ('e'), Infinity shifted by 0x100
		return Pick(r, [][]uint16{{0x131}, {0x131, 0x232}, {0x237}, {0x3531, 0x2e65, 0x3233}, {0x149, 0x16e, 0x166, 0x169, 0x16e, 0x169, 0x174, 0x179},
			{0xA0, 0x37, 0xFEFF}, {0x2028, '-', '1', '.', '5', 0x3000}, {0x130}, {0x12d, 0x130}, {0x22e, 0x135}, {0x1680, 0x31, 0x2029}, {0x31, 0x65, 0x135},
			{0xFF11, 0xFF12}, {0x200B, 0x31}, {0x31, 0x200B}, {0x85, 0x31}, {0x31, 0x180E - 0x180E + 0x2060}, {0x0669}, {0xFEFF}, {0xA0}, {0x3000, 0x3000}}), "unit-named-alias"
	}
}

// strings that look like prefixed integers, with signs and white space at every position
func (g *gen) prefixText() string {
	r := g.r
	if r.Intn(3) == 0 {
		return Pick(r, []string{"0x-1", "0x+1", "-0x1", "+0x1", "0x 1", "0x", "0X1G", "0x1.8", "0b1", "0o7", "1e+", "1e-", "0x-1F", "0X-a", "0x+0", "0x-0", " 0x1 ", "0x1 ", "0x\t1",
			"0x_1", "0x1_", "0x1_0", "0x--1", "0x+-1", "0X+ff", "0b-1", "0o+7", "0x0x1", "00x1", "0x1p-1", "0x.8", "0xe+1", "0x1e+1", "0x-", "0x+", "0x-0x1", "- 0x1", "0 x1", "0x1-", "0x1+1",
			"0B101", "0O17", "0b", "0o", "0b2", "0o8", "0x-8000000000000000", "0x+7fffffffffffffff", "-0", "0e+", "0e-0", ".e1", "e1", "+e1", "1e+-1", "1e--1", "1e+ 1", "1 e1"})
	}
	if r.Intn(3) == 0 {
		// a sign (or two) right after the hex prefix, with every kind of digit string behind it
		return Pick(r, []string{"0x", "0X"}) + Pick(r, []string{"-", "+", "-", "+", "-", "+", "-", "+", "--", "+-", "- ", " -"}) + g.radixDigits(16, Pick(r, []int{1, 1, 2, 4, 8, 15, 16, 17}))
	}
	pre := Pick(r, []string{"0x", "0X", "0x", "0b", "0B", "0o", "0O", "0"})
	dig := g.radixDigits(Pick(r, []int{16, 16, 10, 8, 2}), r.Intn(6)+1)
	ins := Pick(r, []string{"-", "+", " ", "\t", "\u00a0", "_", "-", "+", "--", ".", ""})
	switch r.Intn(5) {
	case 0:
		return ins + pre + dig // before the prefix
	case 1, 2:
		return pre + ins + dig // between prefix and digits
	case 3:
		return pre[:1] + ins + pre[1:] + dig // inside the prefix
	default:
		k := r.Intn(len(dig) + 1)
		return pre + dig[:k] + ins + dig[k:] // inside the digits
	}
}

func (g *gen) numberText() (string, string) {
	r := g.r
	switch r.Intn(20) {
	case 16, 17, 18, 19:
		return g.ws() + g.prefixText() + g.ws(), "prefix-sign-ws"
	case 12, 15:
		return g.ws() + g.zeroText() + g.ws(), "signed-zero"
	case 13:
		return g.ws() + g.integerText() + g.ws(), "integer-string"
	case 14:
		if r.Intn(2) == 0 {
			return g.ws() + g.overflowText(false) + g.ws(), "overflow"
		}
		return g.overflowText(true), "overflow+junk"
	case 0, 1, 2:
		s := Pick(r, []string{"", "", "+", "-"}) + g.unsignedDecimal()
		return g.ws() + s + g.ws(), "grammar"
	case 3:
		f, _ := g.double()
		return g.ws() + g.doubleText(f) + g.ws(), "double-text"
	case 4:
		return Pick(r, []string{"", "", "-", "+"}) + g.midpointText(), "midpoint"
	case 5:
		n := Pick(r, []int{1, 2, 8, 13, 14, 15, 16, 17, 20})
		var b strings.Builder
		b.WriteString(Pick(r, []string{"0x", "0X"}))
		for i := 0; i < n; i++ {
			b.WriteByte("0123456789abcdefABCDEF"[r.Intn(22)])
		}
		return g.ws() + b.String() + g.ws(), "hex"
	case 6, 7:
		return Pick(r, nearMissPool), "near-miss-pool"
	case 8:
		return g.ws() + g.mutate(Pick(r, nearMissPool), mutAlphabet) + g.ws(), "near-miss-mutated"
	default:
		s := Pick(r, []string{"", "", "+", "-"}) + g.unsignedDecimal()
		return g.mutate(s, mutAlphabet), "grammar-mutated"
	}
}

const digitChars = "0123456789abcdefghijklmnopqrstuvwxyzABCDEFGHIJKLMNOPQRSTUVWXYZ"

func (g *gen) radixDigits(radix, n int) string {
	var b strings.Builder
	for i := 0; i < n; i++ {
		d := g.r.Intn(radix)
		if d >= 10 && g.r.Intn(2) == 0 {
			b.WriteByte(digitChars[d+26])
		} else {
			b.WriteByte(digitChars[d])
		}
	}
	return b.String()
}

// parseInt argument and radix (JS text of the radix, Coq option bits)
func (g *gen) parseIntCase() (string, string, string, string) {
	r := g.r
	radix := r.Intn(35) + 2
	if r.Intn(3) == 0 {
		radix = Pick(r, []int{2, 4, 8, 10, 16, 32, 36, 3, 7})
	}
	radixJS, radixCoq := strconv.Itoa(radix), "(Some "+Cdouble(float64(radix))+")"
	effective := radix
	switch r.Intn(10) {
	case 0:
		radixJS, radixCoq, effective = Pick(r, []string{"", "", "undefined", "void 0"}), "None", 10
	case 1:
		v := Pick(r, []float64{0, 1, 37, -1, -16, 16.9, 10.5, 4294967312, -4294967280, 4294967296, math.NaN(), math.Inf(1), 2147483648 + 16, 0.5, -0.0})
		radixJS, radixCoq = JSNum(v), "(Some "+Cdouble(v)+")"
		effective = 10
		if v == 16.9 || v == 4294967312 || v == -4294967280 {
			effective = 16
		}
	}
	var body, bucket string
	switch r.Intn(13) {
	case 0, 1:
		body, bucket = g.radixDigits(effective, r.Intn(12)+1), "pint-small"
	case 2:
		// around 2^53 / 2^63 / 2^64 in this radix
		v := new(big.Int).Lsh(big.NewInt(1), Pick(r, []uint{53, 63, 63, 64, 64, 70}))
		v.Add(v, big.NewInt(int64(r.Intn(4097)-2048)))
		if r.Intn(3) == 0 {
			v.Add(v, new(big.Int).Lsh(big.NewInt(int64(r.Intn(64))), 5))
		}
		body, bucket = v.Text(effective), "pint-boundary"
	case 3:
		body, bucket = strings.TrimLeft(g.radixDigits(effective, Pick(r, []int{17, 19, 20, 21, 22, 25, 40, 64, 80, 400})), "0")+"1", "pint-long"
	case 4:
		// 64-bit-and-beyond values with a tie pattern in the low bits (power-of-two radixes show double rounding)
		hi := new(big.Int).SetUint64(r.Uint64() | 1<<63)
		hi.Lsh(hi, uint(r.Intn(12)))
		low := Pick(r, []int64{0x400, 0x401, 0x3ff, 0x800, 0xc00, 0x7ff, 0x801, 0x1400, 0x1401})
		hi.Or(hi, big.NewInt(low))
		body, bucket = hi.Text(effective), "pint-tie"
	case 5:
		body, bucket = Pick(r, []string{"0", "-0", "+0", "00", "-00", "0x0", "-0x0", "0x", "0X1f", "-0xff", "+0x10", "0x10", "x10", "0b11", "0o7", "010", "08", "1e3", "1.9", ".5", "-.5", "", "-", "+", "+-5", "--5", "Infinity", "NaN", "१२", "12\u00003", "9223372036854775807", "9223372036854775808", "-9223372036854775808", "-9223372036854775809", "18446744073709551616", "0x7fffffffffffffff", "0x8000000000000000", "0x8000000000000401", "0xffffffffffffffff", "0x10000000000000000"}), "pint-pool"
	case 6:
		body, bucket = g.radixDigits(effective, r.Intn(8)+1)+Pick(r, []string{"z", "_", ".", " 1", "g", "e5", "-", "é", "!"})+g.radixDigits(36, r.Intn(3)), "pint-junk-suffix"
	case 7:
		body, bucket = Pick(r, []string{"0x", "0X"})+g.radixDigits(16, Pick(r, []int{1, 4, 8, 15, 16, 17, 20})), "pint-hex-prefix"
	case 8:
		body, bucket = g.mutate(g.radixDigits(effective, r.Intn(10)+1), "0123456789abcxyzXYZ+-._ \t"), "pint-mutated"
	case 9:
		// the first character that is not a digit of this radix has the value radix, radix+1 or radix-1 (still a digit)
		edge := effective + r.Intn(3) - 1
		if edge > 35 {
			edge = 35
		}
		ch := digitChars[edge]
		if edge >= 10 && r.Intn(2) == 0 {
			ch = digitChars[edge+26]
		}
		body, bucket = g.radixDigits(effective, r.Intn(6))+string(ch)+g.radixDigits(effective, r.Intn(4)), "pint-radix-edge"
	default:
		body, bucket = g.radixDigits(effective, Pick(r, []int{13, 14, 15, 16, 18, 19, 20})), "pint-medium"
	}
	if r.Intn(12) == 0 {
		// zero in several spellings: only the sign bit of the result tells them apart
		body, bucket = Pick(r, []string{"0", "00", "000000000000000000000", "0x0", "0X000", "0.9", "0e5", "0z", "0_"}), "pint-zero"
		body = Pick(r, []string{"-", "-", "+", ""}) + body
	}
	if r.Intn(4) == 0 {
		body = Pick(r, []string{"-", "+", "-", " -", "\t+"}) + body
	}
	return g.ws() + body + g.ws(), radixJS, radixCoq, bucket
}

// decimal integer literals beyond int64 (19 digits and more, no '.' and no exponent): the text of an
// integral double in [2^63, 1e21) the way ToString prints it, its exact integer value, both
// neighbours of that value, the midpoints to the adjacent doubles and the integers next to them
func (g *gen) bigDecimalLiteral() string {
	r := g.r
	lo, hi := math.Ldexp(1, 63), 1e21
	var f float64
	switch r.Intn(4) {
	case 0:
		f = math.Exp(math.Log(lo) + r.Float64()*(math.Log(hi)-math.Log(lo)))
	case 1:
		f = nudge(r, Pick(r, []float64{math.Ldexp(1, 63), math.Ldexp(1, 64), math.Ldexp(1, 65), math.Ldexp(1, 66), math.Ldexp(1, 69), 1e19, 1e20, 1e21, 5e20, 123456789012345680000}))
	default:
		f = lo + r.Float64()*(Pick(r, []float64{1e19, 1e20, 1e21})-lo)
	}
	if f < lo {
		f = lo
	}
	exact := func(x float64) *big.Int { v, _ := new(big.Float).SetFloat64(x).Int(nil); return v }
	v := exact(f)
	switch r.Intn(9) {
	case 0:
		return strconv.FormatFloat(f, 'f', -1, 64) // shortest digits padded with zeros, as ToString prints below 1e21
	case 1:
		return v.String()
	case 2:
		return new(big.Int).Add(v, big.NewInt(1)).String()
	case 3:
		return new(big.Int).Sub(v, big.NewInt(1)).String()
	case 4, 5, 6:
		// the midpoint to the next double and the integers beside it
		m := new(big.Int).Add(v, exact(math.Nextafter(f, math.Inf(1))))
		m.Rsh(m, 1)
		return m.Add(m, big.NewInt(int64(r.Intn(3)-1))).String()
	case 7:
		return "1" + strings.Repeat("0", 19+r.Intn(15))
	default:
		return string(byte('1'+r.Intn(9))) + g.digits(18+r.Intn(5))
	}
}

func (g *gen) literalText() (string, string) {
	r := g.r
	switch r.Intn(13) {
	case 10, 11, 12:
		return g.bigDecimalLiteral(), "lit-big-decimal"
	case 0, 1, 2:
		s := g.unsignedDecimal()
		// a leading zero followed by a digit is the legacy octal form, not a decimal literal
		for len(s) > 1 && s[0] == '0' && s[1] >= '0' && s[1] <= '9' {
			s = s[1:]
		}
		return s, "lit-decimal"
	case 3:
		n := Pick(r, []int{1, 2, 8, 13, 14, 15, 16, 16, 17, 18, 20, 30})
		return Pick(r, []string{"0x", "0X"}) + g.radixDigits(16, n), "lit-hex"
	case 4:
		hi := new(big.Int).SetUint64(r.Uint64() | 1<<63)
		hi.Lsh(hi, uint(r.Intn(3))*4)
		hi.Or(hi, big.NewInt(Pick(r, []int64{0x400, 0x401, 0x3ff, 0x800, 0xc00, 0x7ff, 0x801, 0x1400})))
		return "0x" + hi.Text(16), "lit-hex-tie"
	case 5:
		n := Pick(r, []int{1, 2, 5, 10, 20, 21, 22, 23, 25})
		return "0" + g.radixDigits(8, n), "lit-octal"
	case 6:
		return Pick(r, []string{"0", "00", "07", "08", "09", "019", "0.5", "0.", ".0", ".", "0e0", "0e", "1e", "1e+", "1.e5", ".e5", "1..", "1.5.5", "1_0", "0x", "0xg", "0x1g", "0b11", "0o17", "1a", "5.", "0777777777777777777777", "01000000000000000000000", "01777777777777777777777", "0x7fffffffffffffff", "0x8000000000000000", "0x8000000000000401", "0xfffffffffffffffff", "9223372036854775807", "9223372036854775808", "18446744073709551616", "1e400", "1e-400", "00.5", "01.5", "01e5", "1E5", "1e05", "0x1e5", "0X1E5"}), "lit-pool"
	default:
		s := g.unsignedDecimal()
		if r.Intn(3) == 0 {
			s = "0x" + g.radixDigits(16, r.Intn(6)+1)
		}
		return g.mutate(s, "0123456789.eExX_abfg"), "lit-mutated"
	}
}

// a text made only of these is either one numeric literal or a syntax/reference error
func literalSafe(s string) bool {
	if s == "" || len(s) > 400 {
		return false
	}
	hasX := strings.ContainsAny(s, "xX")
	for i, c := range s {
		switch {
		case c >= '0' && c <= '9', c == '.', c == '_', c >= 'a' && c <= 'z', c >= 'A' && c <= 'Z':
		case c == '+' || c == '-':
			// only as the sign of a decimal exponent
			if hasX || i < 2 || (s[i-1] != 'e' && s[i-1] != 'E') || strings.Count(s, "+")+strings.Count(s, "-") > 1 {
				return false
			}
			// what precedes the e must be a complete decimal mantissa (digits with at most one
			// '.'): otherwise the e could be a member name and the sign a binary operator
			dots, digs := 0, 0
			for _, m := range s[:i-1] {
				switch {
				case m >= '0' && m <= '9':
					digs++
				case m == '.':
					dots++
				default:
					return false
				}
			}
			if dots > 1 || digs == 0 {
				return false
			}
			// 0 followed by a digit is a legacy octal integer (B.1.1), complete before any '.':
			// "0300041.E+11" is (0300041).E + 11, an expression
			if len(s) > 1 && s[0] == '0' && s[1] >= '0' && s[1] <= '9' {
				return false
			}
		default:
			return false
		}
	}
	// identifiers (true, null, Infinity, NaN ...) evaluate without error: keep to texts starting with a digit or '.'
	c := s[0]
	if !(c >= '0' && c <= '9' || c == '.') {
		return false
	}
	return true
}

// ---------- cases ----------

func (g *gen) caseStr(f float64, bucket string) {
	how, intlit := g.setXk(f, bucket == "int-literal" || bucket == "pinned-intlit")
	res, show := g.strRes("String(x)")
	same := g.boolRes(`(function(){var a = String(x); return a === ''+x && a === x.toString() && a === x.toString(10) && a === x.toString(undefined) && a === [x].join() && a === new Number(x).toString() && a === (x).toPrecision() && a === String(new Number(x)) && a === x.toPrecision(undefined) && a === x.toPrecision(void 0) && a === x.toString(void 0) && x.toExponential(undefined) === x.toExponential() && (function(v, d){return v.toExponential(d)})(x) === x.toExponential() && x.toFixed(undefined) === x.toFixed() && x.toFixed() === x.toFixed(0) && (function(v, d){return v.toFixed(d)})(x) === x.toFixed(0)})()`)
	back, ok, bshow := g.numRes("Number(String(x))")
	if !ok {
		back = 0x7FF0000000000001 // never equal to a model value
	}
	g.env.Add(fmt.Sprintf("CStr %s %s %s %s %d", Cdouble(f), Cbool(intlit), res, Cbool(same), back),
		fmt.Sprintf("str %s; String(x) -> %s ; all ToString routes and explicit-undefined/no-argument calls agree=%v ; Number(String(x)) -> %s", how, show, same, bshow), "tostring/"+bucket, nontrivialDouble(f))
}

func nontrivialDouble(f float64) bool {
	return !(f == math.Trunc(f) && math.Abs(f) < 1e6)
}

func (g *gen) caseRadix(f float64, bucket string) {
	r := g.r
	how, intlit := g.setXk(f, bucket == "int-literal")
	radix := r.Intn(35) + 2
	js, cq := strconv.Itoa(radix), fmt.Sprintf("(Some %d)", radix)
	switch r.Intn(12) {
	case 0:
		js, cq = "undefined", "None"
	case 1:
		v := Pick(r, []int{0, 1, 37, -1, 100, -16})
		js, cq = strconv.Itoa(v), fmt.Sprintf("(Some %s)", Cz(int64(v)))
	case 2:
		js = strconv.Itoa(radix) + ".7" // ToInteger truncates
	case 3:
		js = "'" + strconv.Itoa(radix) + "'" // ToInteger(ToNumber("16"))
	}
	res, show := g.strRes("x.toString(" + js + ")")
	g.env.Add(fmt.Sprintf("CRadix %s %s %s %s", Cdouble(f), cq, Cbool(intlit), res),
		fmt.Sprintf("radix %s; x.toString(%s) -> %s", how, js, show), "radix/"+bucket, true)
}

func (g *gen) digitsArg(lo, hi int) (string, int) {
	r := g.r
	v := lo + r.Intn(hi-lo+1)
	switch r.Intn(10) {
	case 0:
		v = Pick(r, []int{lo - 1, hi + 1, lo - 1, hi + 1, hi + 5, -5, 100, lo - 2})
	case 1:
		v = Pick(r, []int{lo, hi})
	}
	js := strconv.Itoa(v)
	if r.Intn(8) == 0 {
		if v >= 0 {
			js += ".9"
		} else {
			js += ".9" // -1.9 truncates to -1
		}
	}
	return js, v
}

func (g *gen) caseFixed(f float64, bucket string) {
	how := g.setX(f)
	js, v := g.digitsArg(0, 20)
	if bucket == "near-tie" && g.r.Intn(5) > 0 {
		js, v = strconv.Itoa(g.hintFrac), g.hintFrac
	}
	if bucket == "decimal-tie" && g.r.Intn(2) == 0 {
		// aim at the tie: odd/2^j has j fraction digits
		for j := 1; j <= 13; j++ {
			if f*math.Ldexp(1, j) == math.Trunc(f*math.Ldexp(1, j)) {
				js, v = strconv.Itoa(j-1), j-1
				break
			}
		}
	}
	res, show := g.strRes("x.toFixed(" + js + ")")
	g.env.Add(fmt.Sprintf("CFixed %s %s %s", Cdouble(f), Cz(int64(v)), res),
		fmt.Sprintf("fixed %s; x.toFixed(%s) -> %s", how, js, show), "tofixed/"+bucket, true)
}

func (g *gen) caseExp(f float64, bucket string) {
	how := g.setX(f)
	js, v := g.digitsArg(0, 20)
	cq := "(Some " + Cz(int64(v)) + ")"
	if g.r.Intn(4) == 0 {
		js, cq = Pick(g.r, []string{"", "undefined", "undefined", "void 0", "[][0]", "(function(d){return d})()"}), "None"
	}
	if bucket == "near-tie" && g.r.Intn(5) > 0 {
		js, cq = strconv.Itoa(g.hintSig-1), "(Some "+strconv.Itoa(g.hintSig-1)+")"
	}
	res, show := g.strRes("x.toExponential(" + js + ")")
	g.env.Add(fmt.Sprintf("CExp %s %s %s", Cdouble(f), cq, res),
		fmt.Sprintf("exp %s; x.toExponential(%s) -> %s", how, js, show), "toexponential/"+bucket, true)
}

func (g *gen) casePrec(f float64, bucket string) {
	how := g.setX(f)
	js, v := g.digitsArg(1, 21)
	if bucket == "near-tie" && g.r.Intn(5) > 0 {
		js, v = strconv.Itoa(g.hintSig), g.hintSig
	}
	res, show := g.strRes("x.toPrecision(" + js + ")")
	g.env.Add(fmt.Sprintf("CPrec %s %s %s", Cdouble(f), Cz(int64(v)), res),
		fmt.Sprintf("prec %s; x.toPrecision(%s) -> %s", how, js, show), "toprecision/"+bucket, true)
}

func (g *gen) caseNum(s, bucket string) { g.caseNumU(Units(s), bucket) }

func (g *gen) caseNumU(u []uint16, bucket string) {
	how := g.setS(u)
	bits, ok, show := g.numRes("Number(s)")
	if !ok {
		bits = 0x7FF0000000000001
	}
	same := g.boolRes(`(function(){function eq(a,b){return (a!==a && b!==b) || (a===b && 1/a===1/b)} var a = Number(s); return eq(a, +s) && eq(a, s*1) && eq(a, s/1) && eq(a, s-0) && eq(a, -(-s)) && eq(a, new Number(s).valueOf()) && eq(a, (function(x){return +x})(s)) && eq(a, [s]*1) && eq(isNaN(s), a!==a) && eq(isFinite(s), a-a===0) && eq(s == 0, a === 0) && eq(s == a, a === a) && eq(s < 0, a < 0) && eq(s >= 1, a >= 1) && eq(0 > s, 0 > a) && eq(1/a, 1/s)})()`)
	g.env.Add(fmt.Sprintf("CNum %s %d %s", Cunits(u), bits, Cbool(same)),
		fmt.Sprintf("num s=%s (%s); Number(s) -> %s ; +s, s*1, s/1, s-0, -(-s), new Number(s), [s]*1, 1/s, isNaN, isFinite, ==, <, >= agree=%v", showUnits(u), how, show, same), "tonumber/"+bucket, len(u) > 2)
}

func (g *gen) casePFloat(s, bucket string) { g.casePFloatU(Units(s), bucket) }

func (g *gen) casePFloatU(u []uint16, bucket string) {
	how := g.setS(u)
	bits, ok, show := g.numRes("parseFloat(s)")
	if !ok {
		bits = 0x7FF0000000000001
	}
	g.env.Add(fmt.Sprintf("CPFloat %s %d", Cunits(u), bits),
		fmt.Sprintf("pfloat s=%s (%s); parseFloat(s) -> %s", showUnits(u), how, show), "parsefloat/"+bucket, len(u) > 2)
}

func (g *gen) casePInt(s, radixJS, radixCoq, bucket string) {
	g.casePIntU(Units(s), radixJS, radixCoq, bucket)
}

func (g *gen) casePIntU(u []uint16, radixJS, radixCoq, bucket string) {
	how := g.setS(u)
	src := "parseInt(s)"
	if radixJS != "" {
		src = "parseInt(s, " + radixJS + ")"
	}
	bits, ok, show := g.numRes(src)
	if !ok {
		bits = 0x7FF0000000000001
	}
	g.env.Add(fmt.Sprintf("CPInt %s %s %d", Cunits(u), radixCoq, bits),
		fmt.Sprintf("pint s=%s (%s); %s -> %s", showUnits(u), how, src, show), "parseint/"+bucket, len(u) > 1)
}

// parseInt / parseFloat with a Number argument: the functions work on ToString(argument)
func (g *gen) casePNum(f float64, bucket string) {
	r := g.r
	how, intlit := g.setXk(f, bucket == "int-literal")
	fn, src, radixCoq := 0, "parseInt(x)", "None"
	switch r.Intn(10) {
	case 0, 1, 2:
		fn, src = 1, "parseFloat(x)"
	case 3:
		src = "parseInt(x, " + Pick(r, []string{"undefined", "void 0", "0"}) + ")"
		if strings.HasSuffix(src, " 0)") {
			radixCoq = "(Some " + Cdouble(0) + ")"
		}
	case 4:
		rad := Pick(r, []int{10, 16, 2, 36, 8})
		src, radixCoq = fmt.Sprintf("parseInt(x, %d)", rad), "(Some "+Cdouble(float64(rad))+")"
	case 5:
		src = "(function(v, rdx){return parseInt(v, rdx)})(x)"
	}
	bits, ok, show := g.numRes(src)
	if !ok {
		bits = 0x7FF0000000000001
	}
	g.env.Add(fmt.Sprintf("CPNum %d %s %s %s %d", fn, Cdouble(f), Cbool(intlit), radixCoq, bits),
		fmt.Sprintf("pnum %s; %s -> %s", how, src, show), "parse-of-number/"+bucket, true)
}

func (g *gen) numberArg() (float64, string) {
	r := g.r
	switch r.Intn(4) {
	case 0:
		return g.sign(nudge(r, Pick(r, []float64{5e-7, 1e-7, 0.0000005, 1e-6, 9.5e-7, 1.5e-10, 123e-20, 5e-324, 1e21, 1e22, 1.5e21, 999999999999999868928, 12345.678, 0.5, 0.9999999, 1e-5, 7e-7, 2.5e-9, 6.02e23}))), "threshold"
	case 1:
		return Pick(r, []float64{math.Copysign(0, -1), 0, math.NaN(), math.Inf(1), math.Inf(-1), -0.5, -1e-7, 1, -1}), "special"
	default:
		return g.double()
	}
}

// parseInt / parseFloat / Number with an argument that is not a string: booleans, null, undefined,
// objects with toString / valueOf, arrays, String objects.  The expected text of ToString(argument)
// is known by construction; s holds the text the object methods return.
func (g *gen) casePOther() {
	r := g.r
	text, bucket := g.numberText()
	if r.Intn(3) == 0 {
		text = g.integerText()
	}
	var arg string
	expect := text
	switch r.Intn(12) {
	case 0:
		arg, expect = Pick(r, []string{"true", "false", "null", "undefined", "({})", "[]", "[null]", "[undefined]", "(function(){})"}), ""
		switch arg {
		case "true", "false", "null", "undefined":
			expect = arg
		case "({})":
			expect = "[object Object]"
		case "(function(){})":
			return
		}
	case 1, 2:
		arg = "({toString: function(){ return s }})"
	case 3:
		arg = "({valueOf: function(){ return 42 }, toString: function(){ return s }})"
	case 4:
		arg = "({toString: null, valueOf: function(){ return s }})" // [[DefaultValue]] falls back to valueOf
	case 5, 6:
		arg = "[s]"
	case 7:
		arg, expect = "[s, '7']", text+",7"
	case 8:
		arg = "[[s]]"
	case 9, 10:
		arg = "new String(s)"
	default:
		arg, expect = "[null, s]", ","+text
	}
	u := Units(expect)
	Must(g.vm.Set("s", text))
	fn := r.Intn(3)
	switch fn {
	case 0:
		rad, radCoq := "", "None"
		if r.Intn(3) == 0 {
			k := Pick(r, []int{10, 16, 8, 36})
			rad, radCoq = strconv.Itoa(k), "(Some "+Cdouble(float64(k))+")"
		}
		src := "parseInt(" + arg + ")"
		if rad != "" {
			src = "parseInt(" + arg + ", " + rad + ")"
		}
		bits, ok, show := g.numRes(src)
		if !ok {
			bits = 0x7FF0000000000001
		}
		g.env.Add(fmt.Sprintf("CPInt %s %s %d", Cunits(u), radCoq, bits), fmt.Sprintf("pint-arg s=%s; %s -> %s", showUnits(Units(text)), src, show), "parse-of-object/"+bucket, true)
	case 1:
		src := "parseFloat(" + arg + ")"
		bits, ok, show := g.numRes(src)
		if !ok {
			bits = 0x7FF0000000000001
		}
		g.env.Add(fmt.Sprintf("CPFloat %s %d", Cunits(u), bits), fmt.Sprintf("pfloat-arg s=%s; %s -> %s", showUnits(Units(text)), src, show), "parse-of-object/"+bucket, true)
	default:
		// ToNumber of an object goes through valueOf first: only the forms whose primitive is the text
		if strings.Contains(arg, "valueOf") || arg == "true" || arg == "false" || arg == "null" || arg == "undefined" {
			return
		}
		src := "Number(" + arg + ")"
		bits, ok, show := g.numRes(src)
		if !ok {
			bits = 0x7FF0000000000001
		}
		same := g.boolRes("(function(){function eq(a,b){return (a!==a && b!==b) || (a===b && 1/a===1/b)} var o = " + arg + "; var a = Number(o); return eq(a, +o) && eq(a, o*1) && eq(a, o-0)})()")
		g.env.Add(fmt.Sprintf("CNum %s %d %s", Cunits(u), bits, Cbool(same)), fmt.Sprintf("num-arg s=%s; %s -> %s ; +o, o*1, o-0 agree=%v", showUnits(Units(text)), src, show, same), "tonumber-of-object/"+bucket, true)
	}
}

func (g *gen) caseLit(s, bucket string) {
	if !literalSafe(s) {
		return
	}
	bits, ok, show := g.numRes(s)
	obs := "None"
	if ok {
		obs = fmt.Sprintf("(Some %d)", bits)
	}
	// the same literal inside an expression must denote the same value
	if ok {
		b2, ok2, _ := g.numRes("(" + s + ")")
		b3, ok3, _ := g.numRes("[" + s + " ][0]")
		if !ok2 || !ok3 || b2 != bits || b3 != bits {
			obs = "(Some 9218868437227405313)"
			show += " but differs inside ( ) or [ ]"
		}
	}
	g.env.Add(fmt.Sprintf("CLit %s %s", Cstr(s), obs),
		fmt.Sprintf("lit program text %s -> %s", strconv.QuoteToASCII(s), show), "literal/"+bucket, len(s) > 1)
}

// multi-step: print, then read the text back, inside one script
func (g *gen) caseChain(kind int, f float64, bucket string) {
	r := g.r
	how := g.setX(f)
	arg := 0
	var src string
	switch kind {
	case 0:
		arg = r.Intn(35) + 2
		src = fmt.Sprintf("parseInt(x.toString(%d), %d)", arg, arg)
	case 1:
		src = "parseFloat(String(x))"
	case 2:
		arg = r.Intn(21)
		src = fmt.Sprintf("Number(x.toExponential(%d))", arg)
	case 3:
		arg = r.Intn(21)
		src = fmt.Sprintf("Number(x.toFixed(%d))", arg)
	default:
		arg = r.Intn(21) + 1
		src = fmt.Sprintf("Number(x.toPrecision(%d))", arg)
	}
	bits, ok, show := g.numRes(src)
	if !ok {
		bits = 0x7FF0000000000001
	}
	g.env.Add(fmt.Sprintf("CChain %d %s %d %d", kind, Cdouble(f), arg, bits),
		fmt.Sprintf("chain %s; %s -> %s", how, src, show), fmt.Sprintf("chain%d/%s", kind, bucket), true)
}

func runC06(env *Env) {
	env.Import = "Otto.C06.Corr"
	env.Rule = "doubles: random bit patterns, subnormals, 10^k and 2^k with neighbours, exact decimal ties, the 1e21/1e-6/1e-7 thresholds, integers around 2^53/2^63/2^64, short and 17-digit decimals; each printed by String/toString(radix)/toFixed/toExponential/toPrecision over all digit counts and radixes plus out-of-range arguments. texts: StrDecimalLiteral grammar, exact/shortest/17-digit texts of doubles, exact midpoints between adjacent doubles and texts a hair off them, hex, a pool of near misses and random mutations of all of these, zero in every spelling and sign, decimal integer strings of 1..25 digits around the int64 edge, overflowing decimals with and without trailing junk, code-unit level texts (every StrWhiteSpaceChar around a numeral, units whose low byte is an ASCII numeral character, other scripts' digits, lone surrogates) bound as host string, literal, String.fromCharCode and concatenations; fed to Number()/unary plus/arithmetic/==/relational/parseFloat/parseInt (every radix, boundary and long digit strings, junk suffixes, first non-digit at the radix edge)/program source; parseInt/parseFloat/Number of non-string arguments (numbers of every magnitude, booleans, null, undefined, objects with toString/valueOf, arrays, String objects); short decimals ending in 5 (near and exact ties) through toFixed/toExponential/toPrecision at the digit count that drops the 5; prefix-looking strings with signs and white space at every position; print-then-parse chains inside one script; all on one long-lived runtime. non-trivial = distinct case other than a small integer value resp. a text of more than two characters"
	g := &gen{env: env, vm: otto.New(), r: env.Rng}
	r := env.Rng

	// pinned witnesses of the listed findings (open ones, and repaired ones as regression cases
	// that now expect the ES5 result), first on every run
	pinStr := []float64{999999999999999868928, math.Nextafter(1e-6, 0)}
	for _, f := range pinStr {
		g.caseStr(f, "pinned")
	}
	g.caseStr(89634963422590256, "pinned-intlit")
	pin := func(f float64, do func()) { Must(g.vm.Set("x", f)); do() }
	addRes := func(coq, js, bucket string) {
		res, show := g.strRes(js)
		env.Add(fmt.Sprintf(coq, res), "pinned "+js+" -> "+show, bucket, true)
	}
	pin(math.Ldexp(1, 70), func() {
		addRes("CRadix "+Cdouble(math.Ldexp(1, 70))+" (Some 16) false %s", "x.toString(16)", "radix/pinned")
	})
	pin(0.5, func() { addRes("CRadix "+Cdouble(0.5)+" (Some 2) false %s", "x.toString(2)", "radix/pinned") })
	pin(2.5, func() { addRes("CFixed "+Cdouble(2.5)+" 0 %s", "x.toFixed(0)", "tofixed/pinned") })
	pin(math.Copysign(0, -1), func() {
		addRes("CFixed "+Cdouble(math.Copysign(0, -1))+" 2 %s", "x.toFixed(2)", "tofixed/pinned")
	})
	pin(1.5, func() { addRes("CExp "+Cdouble(1.5)+" (Some 3) %s", "x.toExponential(3)", "toexponential/pinned") })
	pin(math.Inf(1), func() {
		addRes("CExp "+Cdouble(math.Inf(1))+" (Some 2) %s", "x.toExponential(2)", "toexponential/pinned")
	})
	pin(2.5e20, func() {
		addRes("CExp "+Cdouble(2.5e20)+" (Some 0) %s", "x.toExponential(0)", "toexponential/pinned")
	})
	// repaired (cf3c0d9): non-finite receivers are answered before the range test
	pin(math.Inf(1), func() {
		addRes("CExp "+Cdouble(math.Inf(1))+" (Some (-1)) %s", "x.toExponential(-1)", "toexponential/pinned")
		addRes("CExp "+Cdouble(math.Inf(1))+" (Some 21) %s", "x.toExponential(21)", "toexponential/pinned")
		addRes("CPrec "+Cdouble(math.Inf(1))+" 0 %s", "x.toPrecision(0)", "toprecision/pinned")
		addRes("CPrec "+Cdouble(math.Inf(1))+" 3 %s", "x.toPrecision(3)", "toprecision/pinned")
	})
	pin(math.Inf(-1), func() {
		addRes("CPrec "+Cdouble(math.Inf(-1))+" 22 %s", "x.toPrecision(22)", "toprecision/pinned")
		addRes("CExp "+Cdouble(math.Inf(-1))+" (Some 5) %s", "x.toExponential(5)", "toexponential/pinned")
	})
	pin(math.Copysign(0, -1), func() {
		addRes("CFixed "+Cdouble(math.Copysign(0, -1))+" 0 %s", "x.toFixed(0)", "tofixed/pinned")
		addRes("CExp "+Cdouble(math.Copysign(0, -1))+" (Some 2) %s", "x.toExponential(2)", "toexponential/pinned")
		addRes("CPrec "+Cdouble(math.Copysign(0, -1))+" 2 %s", "x.toPrecision(2)", "toprecision/pinned")
	})
	pin(1e-7, func() { addRes("CPrec "+Cdouble(1e-7)+" 3 %s", "x.toPrecision(3)", "toprecision/pinned") })
	pin(1, func() { addRes("CPrec "+Cdouble(1)+" 3 %s", "x.toPrecision(3)", "toprecision/pinned") })
	for _, s := range []string{"inf", "1_0", "0x8000000000000000"} {
		g.caseNum(s, "pinned")
	}
	// signed zeros and the int64 edge in every spelling: compared as bit patterns
	for _, s := range []string{"-0", "-00", "+0", "-0.0", "-0e5", " -0 ", "-.0", "-0.", "-000000000000000000", "-0x0", "\t-0\n", "-0000000000000000000000000",
		"9223372036854775807", "-9223372036854775808", "-9223372036854775809", "999999999999999999", "-00000000000000001", "+00000000000000009"} {
		g.caseNum(s, "pinned-zero-int")
	}
	for _, s := range []string{"-0", "-0.0", "-0e5x", "-.0px", "1e400px", "-1e999abc", "1e309.5", "2e308;", "-9e999e"} {
		g.casePFloat(s, "pinned-zero-overflow")
	}
	g.casePInt("-00", "", "None", "pinned")
	g.casePInt("-0x0", "16", "(Some "+Cdouble(16)+")", "pinned")
	g.casePInt("-0", "", "None", "pinned")
	g.casePInt("0x8000000000000401", "16", "(Some "+Cdouble(16)+")", "pinned")
	g.casePInt("9223372036854775809", "10", "(Some "+Cdouble(10)+")", "pinned")
	for _, s := range []string{"1e1000", "1_0", "0x1p3", "Infin", "12inf"} {
		g.casePFloat(s, "pinned")
	}
	for _, l := range []string{"9223372036854775808", "99999999999999999999", "142348324737356550000", "1000000000000000000000000000000", "9223372036854775809", "9223372036854776833", "18446744073709551615"} {
		g.caseLit(l, "pinned-big-decimal")
	}
	for _, u := range [][]uint16{{0x131}, {0xA0, 0x37, 0xFEFF}, {0x2028, '-', '1', '.', '5', 0x3000}, {0x3531, 0x2e65, 0x3233}, {0xD800, '1'}, {0xFF11}} {
		RunJS(g.vm, "var s = String.fromCharCode("+codeList(u)+");")
		bits, ok, show := g.numRes("Number(s)")
		if !ok {
			bits = 0x7FF0000000000001
		}
		same := g.boolRes("(function(){function eq(a,b){return (a!==a && b!==b) || (a===b && 1/a===1/b)} var a = Number(s); return eq(a, +s) && eq(a, s*1) && eq(a, s-0) && eq(isNaN(s), a!==a) && eq(s == 0, a === 0) && eq(s < 1, a < 1)})()")
		env.Add(fmt.Sprintf("CNum %s %d %s", Cunits(u), bits, Cbool(same)), fmt.Sprintf("pinned num s=%s (fromCharCode); Number(s) -> %s ; other routes agree=%v", showUnits(u), show, same), "tonumber/pinned-units", true)
	}
	for _, f := range []float64{5e-7, 1e-7, math.Copysign(0, -1), 1e21, -1.5e-9, 123.9} {
		g.casePNum(f, "pinned")
	}
	for _, t := range []string{"0x-1F", "0X-a", "0x+0", "0x-0", "-0x1", "0x 1", "0x1_0"} {
		g.caseNum(t, "pinned-prefix")
	}
	for _, t := range []float64{1.45, 9.95, 1.005, 8.345, 0.125, 2.675, 0.045} {
		Must(g.vm.Set("x", t))
		fd := map[float64]int{1.45: 1, 9.95: 1, 1.005: 2, 8.345: 2, 0.125: 2, 2.675: 2, 0.045: 2}[t]
		res, show := g.strRes(fmt.Sprintf("x.toFixed(%d)", fd))
		env.Add(fmt.Sprintf("CFixed %s %d %s", Cdouble(t), fd, res), fmt.Sprintf("pinned x=%v; x.toFixed(%d) -> %s", t, fd, show), "tofixed/pinned-near-tie", true)
	}
	// characters that look like white space but are not StrWhiteSpaceChar, around a numeral and alone,
	// also next to real white space: never trimmed, by any of the three functions
	for _, c := range []uint16{0x85, 0x200B, 0x200C, 0x200D, 0x2060, 0x1C, 0x1D, 0x1E, 0x1F, 0x00, 0x08, 0x7F, 0x2800, 0x3164, 0x115F, 0xAD} {
		g.caseNumU([]uint16{c, '1', '2'}, "pinned-not-ws")
		g.caseNumU([]uint16{'1', '2', c}, "pinned-not-ws")
		g.caseNumU([]uint16{c}, "pinned-not-ws")
		g.caseNumU([]uint16{' ', c, '7', 0xA0}, "pinned-not-ws")
		g.casePIntU([]uint16{c, '1', '2'}, "", "None", "pinned-not-ws")
		g.casePFloatU([]uint16{0x2028, c, '1', '.', '5'}, "pinned-not-ws")
	}
	// digit counts that are not integers, just outside and just inside the ranges: ToInteger truncates first
	for _, f := range []float64{1.5, 123.456} {
		Must(g.vm.Set("x", f))
		for _, a := range []struct {
			js string
			v  int
		}{{"-0.5", 0}, {"-0.9", 0}, {"20.5", 20}, {"20.9", 20}, {"'20.5'", 20}, {"({valueOf: function(){ return 20.5 }})", 20}, {"0.5", 0}, {"21.5", 21}, {"21.9", 21}, {"-1.5", -1}, {"22.5", 22}, {"1.9", 1}, {"NaN", 0}, {"'x'", 0}, {"null", 0}} {
			res, show := g.strRes("x.toFixed(" + a.js + ")")
			env.Add(fmt.Sprintf("CFixed %s %s %s", Cdouble(f), Cz(int64(a.v)), res), fmt.Sprintf("pinned x=%v; x.toFixed(%s) -> %s", f, a.js, show), "tofixed/pinned-fractional-count", true)
			res, show = g.strRes("x.toExponential(" + a.js + ")")
			env.Add(fmt.Sprintf("CExp %s (Some %s) %s", Cdouble(f), Cz(int64(a.v)), res), fmt.Sprintf("pinned x=%v; x.toExponential(%s) -> %s", f, a.js, show), "toexponential/pinned-fractional-count", true)
			res, show = g.strRes("x.toPrecision(" + a.js + ")")
			env.Add(fmt.Sprintf("CPrec %s %s %s", Cdouble(f), Cz(int64(a.v)), res), fmt.Sprintf("pinned x=%v; x.toPrecision(%s) -> %s", f, a.js, show), "toprecision/pinned-fractional-count", true)
		}
	}
	// parseInt: every spelling of the hex prefix against every way of giving the radix (15.1.2.2 steps 6-10:
	// the prefix is stripped only for radix 0 / undefined / 16)
	radixForms := []struct{ js, coq string }{
		{"", "None"}, {"undefined", "None"}, {"void 0", "None"}, {"0", "(Some " + Cdouble(0) + ")"}, {"null", "(Some " + Cdouble(0) + ")"},
		{"10", "(Some " + Cdouble(10) + ")"}, {"16", "(Some " + Cdouble(16) + ")"}, {"'16'", "(Some " + Cdouble(16) + ")"}, {"16.9", "(Some " + Cdouble(16.9) + ")"},
		{"8", "(Some " + Cdouble(8) + ")"}, {"2", "(Some " + Cdouble(2) + ")"}, {"36", "(Some " + Cdouble(36) + ")"}, {"34", "(Some " + Cdouble(34) + ")"}, {"37", "(Some " + Cdouble(37) + ")"},
		{"4294967312", "(Some " + Cdouble(4294967312) + ")"}, {"-16", "(Some " + Cdouble(-16) + ")"},
	}
	for _, t := range []string{"0x1f", "0X1F", "-0x1f", "+0X10", " 0x11", "0x", "0xg", "0x0", "00x1f", "0x1f.8", "1f", "10"} {
		for _, rf := range radixForms {
			g.casePInt(t, rf.js, rf.coq, "pinned-prefix-radix")
		}
	}
	// parseFloat / Number: Infinity in every sign, with and without trailing text, its proper prefixes and other cases
	for _, sign := range []string{"", "+", "-"} {
		for _, word := range []string{"Infinity", "Infinit", "Infin", "Inf", "infinity", "INFINITY", "Infinityy"} {
			for _, tail := range []string{"", "x", " and beyond", "1", "e5", ".5", "Infinity", "_", " ", "\u00a0x", "-", "+1"} {
				if word != "Infinity" && len(tail) > 1 {
					continue
				}
				g.casePFloat(sign+word+tail, "pinned-infinity")
				if tail == "" || tail == "x" || tail == " " {
					g.casePFloat(" \t"+sign+word+tail, "pinned-infinity")
					g.caseNum(sign+word+tail, "pinned-infinity")
				}
			}
		}
	}
	g.caseLit("0x8000000000000401", "pinned")
	g.caseLit("01000000000000000000000", "pinned")

	for env.Count() < env.N {
		switch k := r.Intn(106); {
		case k < 22:
			f, b := g.double()
			g.caseStr(f, b)
		case k < 30:
			f, b := intDouble(g)
			g.caseRadix(f, b)
		case k < 40:
			f, b := g.double()
			if r.Intn(2) == 0 && math.Abs(f) > 1e22 {
				f, b = g.sign(float64(r.Int63n(1e9))/float64(Pick(r, []int64{1, 2, 4, 8, 16, 10, 100, 1000, 1 << 20}))), "decimal-tie"
			}
			if r.Intn(8) == 0 {
				// the 1e21 switch to ToString and the largest values still printed positionally
				f, b = g.sign(nudge(r, Pick(r, []float64{1e21, 1e21, 999999999999999868928, 1e20, 1e22, 123456789012345680000, 5e20}))), "threshold"
			}
			if r.Intn(14) == 0 {
				f, b = g.specialReceiver()
			}
			if r.Intn(5) < 2 {
				f, b = g.nearTie()
			}
			g.caseFixed(f, b)
		case k < 48:
			f, b := g.double()
			if r.Intn(10) == 0 {
				f, b = g.specialReceiver()
			}
			if r.Intn(4) == 0 {
				f, b = g.nearTie()
			}
			g.caseExp(f, b)
		case k < 56:
			f, b := g.double()
			if r.Intn(10) == 0 {
				f, b = g.specialReceiver()
			}
			if r.Intn(4) == 0 {
				f, b = g.nearTie()
			}
			g.casePrec(f, b)
		case k < 70:
			if r.Intn(4) == 0 {
				u, b := g.unitText()
				g.caseNumU(u, b)
				break
			}
			s, b := g.numberText()
			g.caseNum(s, b)
		case k < 80:
			if r.Intn(6) == 0 {
				u, b := g.unitText()
				g.casePFloatU(u, b)
				break
			}
			s, b := g.numberText()
			switch r.Intn(8) {
			case 5:
				s, b = g.ws()+Pick(r, []string{"", "+", "-", "-", "+"})+"Infinity"+Pick(r, []string{"", "x", " and beyond", "0", "e1", ".", "Infinity", "\u3000", "-Infinity", "y z", ","}), "infinity+tail"
			case 0:
				s, b = g.ws()+g.overflowText(true), "overflow+junk"
			case 1:
				s, b = g.ws()+g.zeroText()+Pick(r, []string{"", "", "x", "e", ".", " 1", "px", "e+", "_"}), "signed-zero"
			case 2, 3, 4:
				s += Pick(r, []string{"x", " 1", "e", "e+", ".", "..", "px", "Infinity", "inf", "_", "f", "-", "+5", ",5", "é"})
				b += "+suffix"
			}
			g.casePFloat(s, b)
		case k < 90:
			if r.Intn(8) == 0 {
				u, b := g.unitText()
				rad := Pick(r, []int{0, 10, 16, 36, 2})
				if rad == 0 {
					g.casePIntU(u, Pick(r, []string{"", "undefined"}), "None", b)
				} else {
					g.casePIntU(u, strconv.Itoa(rad), "(Some "+Cdouble(float64(rad))+")", b)
				}
				break
			}
			s, rj, rc, b := g.parseIntCase()
			g.casePInt(s, rj, rc, b)
		case k < 96:
			if r.Intn(3) == 0 {
				g.casePOther()
			} else {
				f, b := g.numberArg()
				g.casePNum(f, b)
			}
		case k < 99:
			kind := r.Intn(5)
			f, b := g.double()
			if kind == 0 {
				f, b = intDouble(g)
			}
			g.caseChain(kind, f, b)
		default:
			s, b := g.literalText()
			g.caseLit(s, b)
		}
	}
}
