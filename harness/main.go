// ottoh: the implementation side of the correspondence checks.  Built from
// /repo's working tree (replace directive) with -tags verif on every run.
// Each sub-command generates cases from one PRNG seed, runs them on the real
// interpreter and writes them, together with what was observed, as Coq
// source (cases_<i>.v) for the in-Coq verdict, as text (cases_<i>.txt, one
// case per line, same order) for replays, and meta.json for evidence.
package main

import (
	"flag"
	"fmt"
	"os"
	"sort"
)

type cmdFunc func(env *Env)

var commands = map[string]cmdFunc{}

func register(name string, f cmdFunc) { commands[name] = f }

func main() {
	if len(os.Args) < 2 {
		usage()
	}
	name := os.Args[1]
	f, ok := commands[name]
	if !ok {
		usage()
	}
	fs := flag.NewFlagSet(name, flag.ExitOnError)
	seed := fs.Int64("seed", 1, "PRNG seed")
	n := fs.Int("n", 1000, "number of generated cases")
	shards := fs.Int("shards", 4, "number of cases_<i>.v files")
	out := fs.String("out", "", "output directory")
	tier := fs.String("tier", "quick", "quick|thorough")
	replay := fs.String("replay", "", "replay file (property specific)")
	_ = fs.Parse(os.Args[2:])
	if *out == "" {
		fmt.Fprintln(os.Stderr, "missing -out")
		os.Exit(2)
	}
	if err := os.MkdirAll(*out, 0o755); err != nil {
		panic(err)
	}
	env := newEnv(name, *seed, *n, *shards, *out, *tier)
	env.Replay = *replay
	f(env)
	env.finish()
}

func usage() {
	names := make([]string, 0, len(commands))
	for k := range commands {
		names = append(names, k)
	}
	sort.Strings(names)
	fmt.Fprintln(os.Stderr, "usage: ottoh <cmd> -seed S -n N -shards K -out DIR; commands:", names)
	os.Exit(2)
}
