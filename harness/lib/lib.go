// Package lib: shared plumbing of the correspondence harness (case files, Coq printers, guarded calls into otto).
package lib

import (
	"encoding/json"
	"flag"
	"fmt"
	"math"
	"math/rand"
	"os"
	"path/filepath"
	"sort"
	"strings"
	"sync/atomic"
	"time"
	"unicode/utf16"

	"github.com/robertkrimen/otto"
)

// Env collects the cases of one harness run.
type Env struct {
	Name    string
	Seed    int64
	N       int
	Shards  int
	Out     string
	Tier    string
	Replay  string
	Rng     *rand.Rand
	Import  string // Coq module that defines `case` and `verdict`, e.g. "Otto.C12.Corr"
	coq     []string
	txt     []string
	nontriv map[string]bool
	Dist    map[string]int
	Samples []string
	Rule    string
	Extra   map[string]interface{}
}

// FromFlags parses the common command line (-seed -n -shards -out -tier -replay).
func FromFlags(name string) *Env {
	fs := flag.NewFlagSet(name, flag.ExitOnError)
	seed := fs.Int64("seed", 1, "PRNG seed")
	n := fs.Int("n", 1000, "number of generated cases")
	shards := fs.Int("shards", 4, "number of cases_<i>.v files")
	out := fs.String("out", "", "output directory")
	tier := fs.String("tier", "quick", "quick|thorough")
	replay := fs.String("replay", "", "replay file (property specific)")
	_ = fs.Parse(os.Args[1:])
	if *out == "" {
		fmt.Fprintln(os.Stderr, "missing -out")
		os.Exit(2)
	}
	Must(os.MkdirAll(*out, 0o755))
	env := NewEnv(name, *seed, *n, *shards, *out, *tier)
	env.Replay = *replay
	return env
}

func NewEnv(name string, seed int64, n, shards int, out, tier string) *Env {
	return &Env{Name: name, Seed: seed, N: n, Shards: shards, Out: out, Tier: tier,
		Rng: rand.New(rand.NewSource(seed)), nontriv: map[string]bool{}, Dist: map[string]int{},
		Extra: map[string]interface{}{}}
}

// Add records one case: its Coq term, its human-readable replay line, the
// distribution bucket it belongs to, and whether it is non-trivial by the
// property's stated rule (distinctness is by the text line).
func (e *Env) Add(coq, txt, bucket string, nontrivial bool) {
	e.coq = append(e.coq, coq)
	txt = strings.ReplaceAll(txt, "\n", "\\n")
	e.txt = append(e.txt, txt)
	e.Dist[bucket]++
	if nontrivial {
		e.nontriv[txt] = true
	}
	if len(e.Samples) < 12 && (len(e.coq)%97 == 1 || len(e.Samples) < 3) {
		e.Samples = append(e.Samples, txt)
	}
}

func (e *Env) Count() int { return len(e.coq) }

func (e *Env) Finish() {
	if e.Import == "" {
		return // command wrote its own outputs
	}
	shards := e.Shards
	if shards < 1 {
		shards = 1
	}
	per := (len(e.coq) + shards - 1) / shards
	if per == 0 {
		per = 1
	}
	idx := 0
	nfiles := 0
	for s := 0; s < shards && idx < len(e.coq); s++ {
		end := idx + per
		if end > len(e.coq) {
			end = len(e.coq)
		}
		var b strings.Builder
		fmt.Fprintf(&b, "From Coq Require Import List ZArith.\nImport ListNotations.\nOpen Scope Z_scope.\nFrom Otto Require Import Common.Corr %s.\n", strings.TrimPrefix(e.Import, "Otto."))
		b.WriteString("Definition cases : list case := [\n")
		for i := idx; i < end; i++ {
			b.WriteString("  ")
			b.WriteString(e.coq[i])
			if i+1 < end {
				b.WriteString(";")
			}
			b.WriteString("\n")
		}
		b.WriteString("].\nDefinition R := Eval vm_compute in (run_cases verdict cases).\nPrint R.\n")
		Must(os.WriteFile(filepath.Join(e.Out, fmt.Sprintf("cases_%d.v", s)), []byte(b.String()), 0o644))
		Must(os.WriteFile(filepath.Join(e.Out, fmt.Sprintf("cases_%d.txt", s)), []byte(strings.Join(e.txt[idx:end], "\n")+"\n"), 0o644))
		idx = end
		nfiles++
	}
	meta := map[string]interface{}{
		"evaluations":         len(e.coq),
		"distinct_nontrivial": len(e.nontriv),
		"rule":                e.Rule,
		"distribution":        e.Dist,
		"samples":             e.Samples,
		"shards":              nfiles,
		"seed":                e.Seed,
	}
	for k, v := range e.Extra {
		meta[k] = v
	}
	bs, _ := json.MarshalIndent(meta, "", " ")
	Must(os.WriteFile(filepath.Join(e.Out, "meta.json"), bs, 0o644))
}

func Must(err error) {
	if err != nil {
		panic(err)
	}
}

// ---- Coq printers ----

func Cz(v int64) string {
	if v < 0 {
		return fmt.Sprintf("(%d)", v)
	}
	return fmt.Sprintf("%d", v)
}

func Czu(v uint64) string { return fmt.Sprintf("%d", v) }

func Cbool(b bool) string {
	if b {
		return "true"
	}
	return "false"
}

func Clist(items []string) string { return "[" + strings.Join(items, "; ") + "]" }

func Czlist(vs []int64) string {
	s := make([]string, len(vs))
	for i, v := range vs {
		s[i] = Cz(v)
	}
	return Clist(s)
}

func Copt(ok bool, s string) string {
	if !ok {
		return "None"
	}
	return "(Some " + s + ")"
}

// UTF-16 code units of a Go string (invalid UTF-8 becomes U+FFFD as Go does).
func Units(s string) []uint16 { return utf16.Encode([]rune(s)) }

func Cunits(u []uint16) string {
	s := make([]string, len(u))
	for i, v := range u {
		s[i] = fmt.Sprintf("%d", v)
	}
	return Clist(s)
}

func Cstr(s string) string { return Cunits(Units(s)) }

// bit pattern of a double with all NaNs collapsed
func Dbits(f float64) uint64 {
	if math.IsNaN(f) {
		return 0x7FF8000000000000
	}
	return math.Float64bits(f)
}

func Cdouble(f float64) string { return Czu(Dbits(f)) }

// JS source text of a double that evaluates to exactly that double
func JSNum(f float64) string {
	switch {
	case math.IsNaN(f):
		return "NaN"
	case math.IsInf(f, 1):
		return "Infinity"
	case math.IsInf(f, -1):
		return "(-Infinity)"
	case f == 0 && math.Signbit(f):
		return "(-0)"
	}
	s := fmt.Sprintf("%.17g", f)
	if f < 0 {
		return "(" + s + ")"
	}
	return s
}

// JS string literal from UTF-16 units, every unit escaped
func JSStr(u []uint16) string {
	var b strings.Builder
	b.WriteByte('"')
	for _, c := range u {
		if c >= 0x20 && c < 0x7f && c != '"' && c != '\\' {
			b.WriteByte(byte(c))
		} else {
			fmt.Fprintf(&b, "\\u%04X", c)
		}
	}
	b.WriteByte('"')
	return b.String()
}

// ---- running otto ----

// Outcome of a guarded call into otto.
type Outcome struct {
	Val     otto.Value
	Err     error
	Panic   interface{} // non-nil if a Go panic escaped the API
	Timeout bool        // the watchdog of Watch fired
}

func Guard(f func() (otto.Value, error)) (o Outcome) {
	defer func() {
		if r := recover(); r != nil {
			o.Panic = r
		}
	}()
	o.Val, o.Err = f()
	return
}

// WatchdogHalt is the payload of the panic raised by the watchdog's interrupt function.
const WatchdogHalt = "verif-watchdog-timeout"

// Watch runs f on vm under a wall-clock watchdog: after d an interrupt function
// that panics is sent (and re-sent every 50ms, because a JavaScript try can
// swallow it).  A run ended by the watchdog is reported with Timeout = true.
func Watch(vm *otto.Otto, d time.Duration, f func() (otto.Value, error)) Outcome {
	vm.Interrupt = make(chan func(), 1)
	done := make(chan struct{})
	fired := int32(0)
	go func() {
		select {
		case <-done:
			return
		case <-time.After(d):
		}
		for {
			atomic.StoreInt32(&fired, 1)
			select {
			case vm.Interrupt <- func() { panic(WatchdogHalt) }:
			case <-done:
				return
			}
			select {
			case <-done:
				return
			case <-time.After(50 * time.Millisecond):
			}
		}
	}()
	o := Guard(f)
	close(done)
	if atomic.LoadInt32(&fired) == 1 {
		o.Timeout = true
	}
	return o
}

func RunJS(vm *otto.Otto, src string) Outcome {
	return Guard(func() (otto.Value, error) { return vm.Run(src) })
}

// Error class enum shared with the Coq side:
// 0 none, 1 Error, 2 EvalError, 3 RangeError, 4 ReferenceError, 5 SyntaxError,
// 6 TypeError, 7 URIError, 8 other thrown value, 9 Go panic escaped
func ErrClass(o Outcome) int64 {
	if o.Panic != nil {
		return 9
	}
	if o.Err == nil {
		return 0
	}
	msg := o.Err.Error()
	for i, n := range []string{"Error", "EvalError", "RangeError", "ReferenceError", "SyntaxError", "TypeError", "URIError"} {
		if strings.HasPrefix(msg, n+":") || msg == n {
			return int64(i + 1)
		}
	}
	if strings.HasPrefix(msg, "(anonymous): Line") {
		return 5 // parser.ErrorList
	}
	return 8
}

func SortedKeys(m map[string]int) []string {
	ks := make([]string, 0, len(m))
	for k := range m {
		ks = append(ks, k)
	}
	sort.Strings(ks)
	return ks
}

func Pick[T any](r *rand.Rand, xs []T) T { return xs[r.Intn(len(xs))] }
